package rules

import (
	"fmt"
	"go/ast"
	"go/types"
	"sort"
	"strings"

	"verif/checker/core"
)

// isWrapperOf tells whether t (T or *T) is a struct that embeds the interface
// iface itself: such a type implements the interface by delegation and is a
// presentation wrapper, not a new kind of the closed set.
func isWrapperOf(t types.Type, iface *types.Named) bool {
	if p, ok := t.(*types.Pointer); ok {
		t = p.Elem()
	}
	st, ok := t.Underlying().(*types.Struct)
	if !ok {
		return false
	}
	for i := 0; i < st.NumFields(); i++ {
		f := st.Field(i)
		if f.Embedded() && types.Identical(f.Type(), iface) {
			return true
		}
	}
	return false
}

// valueNeverFuncOrIface lists ssa.Value kinds whose static type can never be
// a function or interface type (from the go/ssa documentation of each kind):
// they cannot be the Value of a CallCommon.
var valueNeverFuncOrIface = map[string]string{
	"*ssa.Alloc":               "type is always a pointer",
	"*ssa.FieldAddr":           "type is always a pointer",
	"*ssa.IndexAddr":           "type is always a pointer",
	"*ssa.Global":              "type is always a pointer (address of the variable)",
	"*ssa.MakeChan":            "type is a channel",
	"*ssa.MakeMap":             "type is a map",
	"*ssa.MakeSlice":           "type is a slice",
	"*ssa.Slice":               "type is a slice or string",
	"*ssa.Range":               "type is an opaque iterator",
	"*ssa.Next":                "type is a tuple",
	"*ssa.Select":              "type is a tuple",
	"*ssa.BinOp":               "no binary operator yields a function or interface",
	"*ssa.Convert":             "Convert is only used for basic/unsafe.Pointer/string/slice conversions",
	"*ssa.SliceToArrayPointer": "type is a pointer to array",
	"*ssa.MultiConvert":        "only in uninstantiated generic bodies (R07.mode)",
}

// exhaustive checks that every implementer of d.Iface is covered by a case of
// d.Switch; an uncovered implementer is a violation unless exc gives a reason
// or it is a delegating wrapper.
func exhaustive(c *core.Ctx, r *core.Report, rule string, d *core.Dispatch, exc map[string]string, what string) {
	r.Analysed(d.Func)
	pos := c.Pos(d.Switch.Stmt.Pos())
	for _, im := range d.Impls {
		name := core.ShortType(im)
		key := d.Func + "|" + name
		if cl := d.Switch.ClauseFor(im); cl != nil {
			r.OK(rule, key, c.Pos(cl.Clause.Pos()), "covered by a case of the "+core.ShortType(d.Iface)+" switch")
			continue
		}
		if isWrapperOf(im, d.Iface) {
			r.Except(rule, key, pos, "delegating wrapper: struct embeds "+core.ShortType(d.Iface)+" itself, not a new kind")
			continue
		}
		if why, ok := exc[name]; ok {
			r.Except(rule, key, pos, why)
			continue
		}
		r.Fail(rule, key, pos, fmt.Sprintf("%s has no case for %s: %s (default arm: %s)", d.Func, name, what, d.Default))
	}
}

// tagDescr returns the source text shape of the tag expression of a switch.
func tagExpr(ts *core.TypeSwitch) ast.Expr {
	switch a := ts.Stmt.Assign.(type) {
	case *ast.ExprStmt:
		return a.X.(*ast.TypeAssertExpr).X
	case *ast.AssignStmt:
		return a.Rhs[0].(*ast.TypeAssertExpr).X
	}
	return nil
}

// isCalleeValueExpr tells whether e is `X.Call.Value`, `X.Common().Value` or
// `X.Value` with X a CallCommon: the callee/receiver operand of a call.
func isCalleeValueExpr(e ast.Expr, info *types.Info) bool {
	sel, ok := ast.Unparen(e).(*ast.SelectorExpr)
	if !ok || sel.Sel.Name != "Value" {
		return false
	}
	t := info.TypeOf(sel.X)
	if t == nil {
		return false
	}
	if p, ok := t.(*types.Pointer); ok {
		t = p.Elem()
	}
	n, ok := t.(*types.Named)
	return ok && n.Obj().Name() == "CallCommon" && n.Obj().Pkg() != nil && n.Obj().Pkg().Path() == core.SSAPath
}

var multiConvertWhy = "*ssa.MultiConvert only occurs in bodies of uninstantiated generic functions; Argot builds SSA with ssa.InstantiateGenerics (premise checked by R07.mode) and only analyses functions reachable in the pointer call graph"

// scopePkgsC07 are the packages whose panicking dispatchers are gated.
var scopePkgsC07 = []string{"analysis", "analysis/lang", "analysis/dataflow", "analysis/taint", "analysis/backtrace", "analysis/escape",
	"analysis/defers", "analysis/maypanic", "analysis/reachability", "analysis/summaries", "analysis/config", "internal/pointer", "internal/analysisutil", "internal/funcutil", "internal/graphutil"}

// closedIfaces are the closed interfaces the analyses dispatch on.
var closedIfaces = [][2]string{{core.SSAPath, "Instruction"}, {core.SSAPath, "Value"}, {core.SSAPath, "CallInstruction"},
	{core.SSAPath, "Node"}, {core.Module + "/analysis/dataflow", "GraphNode"}}

// panickingDispatchers discovers every type switch with a panicking default
// over one of the closed interfaces in the scope packages.
func panickingDispatchers(c *core.Ctx) []*core.Dispatch {
	var res []*core.Dispatch
	for _, rel := range scopePkgsC07 {
		p := c.Pkg(rel)
		if p == nil {
			continue
		}
		for _, f := range p.Syntax {
			if strings.HasSuffix(c.Fset.Position(f.Pos()).Filename, "_test.go") {
				continue
			}
			for _, decl := range f.Decls {
				fd, ok := decl.(*ast.FuncDecl)
				if !ok || fd.Body == nil {
					continue
				}
				name := fd.Name.Name
				if fd.Recv != nil && len(fd.Recv.List) > 0 {
					rt := p.TypesInfo.TypeOf(fd.Recv.List[0].Type)
					if pt, ok := rt.(*types.Pointer); ok {
						rt = pt.Elem()
					}
					if n, ok := rt.(*types.Named); ok {
						name = n.Obj().Name() + "." + name
					}
				}
				for _, ci := range closedIfaces {
					named, iface := c.NamedIface(ci[0], ci[1])
					if named == nil {
						continue
					}
					for _, ts := range core.TypeSwitchesIn(fd.Body, p.TypesInfo, named) {
						dc := ts.DefaultClause()
						if dc == nil || core.BodyKind(dc.Body, p.TypesInfo) != "panic" {
							continue
						}
						res = append(res, &core.Dispatch{Func: rel + "." + name, Decl: fd, Pkg: p, Switch: ts, Iface: named,
							Impls: c.Implementers(iface), Default: "panic"})
					}
				}
			}
		}
	}
	sort.Slice(res, func(i, j int) bool { return res[i].Switch.Stmt.Pos() < res[j].Switch.Stmt.Pos() })
	return res
}
