package rules

import (
	"fmt"
	"go/ast"
	"go/constant"
	"go/token"
	"go/types"
	"os"
	"sort"
	"strings"

	"golang.org/x/tools/go/packages"
	"golang.org/x/tools/go/ssa"

	"verif/checker/core"
)

func init() { Registry["C09"] = c09 }

type stdEntry struct {
	key     string
	mapVar  string
	args    [][]int
	rets    [][]int
	pos     token.Pos
	evalErr string
}

// evalIntMatrix evaluates a [][]int composite literal.
func evalIntMatrix(e ast.Expr, info *types.Info) ([][]int, bool) {
	cl, ok := ast.Unparen(e).(*ast.CompositeLit)
	if !ok {
		return nil, false
	}
	res := [][]int{}
	for _, row := range cl.Elts {
		rl, ok := row.(*ast.CompositeLit)
		if !ok {
			return nil, false
		}
		r := []int{}
		for _, x := range rl.Elts {
			tv := info.Types[x]
			if tv.Value == nil {
				return nil, false
			}
			n, _ := constant.Int64Val(constant.ToInt(tv.Value))
			r = append(r, int(n))
		}
		res = append(res, r)
	}
	return res, true
}

// evalSummary evaluates a Summary expression (identifier of a package var,
// positional or keyed composite literal).
func evalSummary(e ast.Expr, info *types.Info, vars map[types.Object]ast.Expr, depth int) (args, rets [][]int, ok bool) {
	if depth > 4 {
		return nil, nil, false
	}
	switch x := ast.Unparen(e).(type) {
	case *ast.Ident:
		if init, found := vars[info.ObjectOf(x)]; found {
			return evalSummary(init, info, vars, depth+1)
		}
		return nil, nil, false
	case *ast.CompositeLit:
		st, isStruct := info.TypeOf(x).Underlying().(*types.Struct)
		if !isStruct {
			return nil, nil, false
		}
		args, rets = [][]int{}, [][]int{}
		for i, el := range x.Elts {
			name := ""
			val := el
			if kv, isKV := el.(*ast.KeyValueExpr); isKV {
				name = kv.Key.(*ast.Ident).Name
				val = kv.Value
			} else if i < st.NumFields() {
				name = st.Field(i).Name()
			}
			m, ok := evalIntMatrix(val, info)
			if !ok {
				return nil, nil, false
			}
			switch name {
			case "Args":
				args = m
			case "Rets":
				rets = m
			default:
				return nil, nil, false
			}
		}
		return args, rets, true
	}
	return nil, nil, false
}

// parseFuncKey splits an ssa.Function.String() shaped key.
func parseFuncKey(key string) (pkg, recv, name string, ptr bool, ok bool) {
	if key == "" || strings.TrimSpace(key) != key || strings.ContainsAny(key, " \t,") {
		return "", "", "", false, false
	}
	if strings.HasPrefix(key, "(") {
		end := strings.Index(key, ").")
		if end < 0 {
			return "", "", "", false, false
		}
		inner := key[1:end]
		name = key[end+2:]
		if strings.HasPrefix(inner, "*") {
			ptr = true
			inner = inner[1:]
		}
		dot := strings.LastIndex(inner, ".")
		if dot < 0 || name == "" {
			return "", "", "", false, false
		}
		return inner[:dot], inner[dot+1:], name, ptr, true
	}
	dot := strings.LastIndex(key, ".")
	if dot <= 0 || dot == len(key)-1 {
		return "", "", "", false, false
	}
	return key[:dot], "", key[dot+1:], false, true
}

func c09(c *core.Ctx, r *core.Report) {
	r.Explain("The table of predefined summaries is evaluated from its composite literals (go/constant) and every entry is checked against the toolchain's own standard library as type-checked by go/types. R09.reach: the entry can be found by the lookup stdPackages[pkg(f)][f.String()] (package part of the key is a key of stdPackages mapping to the map that holds the entry; key has the shape f.String() produces; receiver form matches the declared receiver). R09.resolve: the key names an existing function/method (violation only for case-only typos; other unresolved keys are listed as dead weight). R09.align: a flow the table itself asserts (row i < #params, non-empty targets) is not discarded by the loader's range checks (all targets out of range). R09.required: requiredSummaries keys resolve. R09.rows: PopulateGraphFromSummary applies every row of Args through addParamEdgeByPos and every row of Rets through addReturnEdgeByPos (row index bounded by the length of its own table). R09.io: a position whose type has Read([]byte) lists every []byte position in Args, a []byte/string position lists every position whose type has Write([]byte) (io.Reader / io.Writer contracts; the method name fixes the role of a type that is both). R09.resolve.dead (info): unresolved keys that cannot lose a flow. R09.witness (thorough): a parameter that reaches a result through a pure copy chain in the SSA body must be listed in Rets.")
	r.NotDecided("that every real flow of every summarised function is listed (over-approximation in general); a missing row is only reported when a body-level pure-copy witness exists.")
	p := c.Pkg("analysis/summaries")
	if p == nil {
		r.Fail("infra.anchor-unresolved", "R09|analysis/summaries", "", "package not found")
		return
	}
	info := p.TypesInfo
	// package-level var initialisers
	vars := map[types.Object]ast.Expr{}
	for _, f := range p.Syntax {
		for _, d := range f.Decls {
			gd, ok := d.(*ast.GenDecl)
			if !ok || gd.Tok != token.VAR {
				continue
			}
			for _, sp := range gd.Specs {
				vs := sp.(*ast.ValueSpec)
				for i, n := range vs.Names {
					if i < len(vs.Values) {
						vars[info.ObjectOf(n)] = vs.Values[i]
					}
				}
			}
		}
	}
	// find the table: var of type map[string]map[string]Summary
	var tableObj types.Object
	for o := range vars {
		if mt, ok := o.Type().Underlying().(*types.Map); ok {
			if inner, ok := mt.Elem().Underlying().(*types.Map); ok {
				if n, ok := inner.Elem().(*types.Named); ok && n.Obj().Name() == "Summary" {
					tableObj = o
				}
			}
		}
	}
	if tableObj == nil {
		r.Fail("infra.anchor-unresolved", "R09|stdPackages", "", "no package-level var of type map[string]map[string]Summary")
		return
	}
	tcl, _ := vars[tableObj].(*ast.CompositeLit)
	if tcl == nil {
		r.Fail("infra.anchor-unresolved", "R09|stdPackages", "", "table initialiser is not a composite literal")
		return
	}
	pkgToMap := map[string]types.Object{}
	mapVars := map[types.Object]bool{}
	for _, el := range tcl.Elts {
		kv := el.(*ast.KeyValueExpr)
		ktv := info.Types[kv.Key]
		id, isId := ast.Unparen(kv.Value).(*ast.Ident)
		if ktv.Value == nil || !isId {
			r.Fail("R09.eval", "stdPackages|"+c.Pos(kv.Pos()), c.Pos(kv.Pos()), "table row is not (string constant: identifier)")
			continue
		}
		pkgToMap[constant.StringVal(ktv.Value)] = info.ObjectOf(id)
		mapVars[info.ObjectOf(id)] = true
	}
	var entries []stdEntry
	for mv := range mapVars {
		cl, _ := vars[mv].(*ast.CompositeLit)
		if cl == nil {
			r.Fail("R09.eval", "map|"+mv.Name(), c.Pos(mv.Pos()), "summary map initialiser is not a composite literal")
			continue
		}
		for _, el := range cl.Elts {
			kv := el.(*ast.KeyValueExpr)
			ktv := info.Types[kv.Key]
			if ktv.Value == nil {
				r.Fail("R09.eval", "entry|"+mv.Name()+"|"+c.Pos(kv.Pos()), c.Pos(kv.Pos()), "entry key is not a string constant")
				continue
			}
			e := stdEntry{key: constant.StringVal(ktv.Value), mapVar: mv.Name(), pos: kv.Pos()}
			a, rt, ok := evalSummary(kv.Value, info, vars, 0)
			if !ok {
				e.evalErr = "cannot evaluate summary literal"
			}
			e.args, e.rets = a, rt
			entries = append(entries, e)
		}
	}
	sort.Slice(entries, func(i, j int) bool { return entries[i].key < entries[j].key })
	r.Extra["table_entries"] = len(entries)
	r.Extra["table_packages"] = len(pkgToMap)
	r.Extra["exhaustive"] = true
	r.Floor("R09.reach", 300, "338 entries measured")

	// std oracle: packages named by keys; those not already loaded are loaded from source
	need := map[string]bool{}
	for _, e := range entries {
		if pk, _, _, _, ok := parseFuncKey(e.key); ok {
			need[pk] = true
		}
	}
	var reqKeys []string
	if ro := p.Types.Scope().Lookup("requiredSummaries"); ro != nil {
		if cl, ok := vars[ro].(*ast.CompositeLit); ok {
			for _, el := range cl.Elts {
				if kv, ok := el.(*ast.KeyValueExpr); ok {
					if tv := info.Types[kv.Key]; tv.Value != nil {
						k := constant.StringVal(tv.Value)
						reqKeys = append(reqKeys, k)
						if pk, _, _, _, ok := parseFuncKey(k); ok {
							need[pk] = true
						}
					}
				}
			}
		}
	}
	std := map[string]*types.Package{}
	var missing []string
	for pk := range need {
		if lp := c.All[pk]; lp != nil && lp.Types != nil {
			std[pk] = lp.Types
		} else {
			missing = append(missing, pk)
		}
	}
	sort.Strings(missing)
	var extraProg *ssa.Program
	_ = extraProg
	if len(missing) > 0 {
		cfg := &packages.Config{Mode: packages.NeedName | packages.NeedTypes | packages.NeedSyntax | packages.NeedTypesInfo | packages.NeedImports | packages.NeedDeps | packages.NeedFiles | packages.NeedCompiledGoFiles,
			Dir: c.RepoDir, Env: append(os.Environ(), "GOFLAGS=-mod=mod", "GOPROXY=off", "GOWORK=off", "GOSUMDB=off", "GOTOOLCHAIN=local")}
		lp, err := packages.Load(cfg, missing...)
		if err == nil {
			for _, q := range lp {
				if q.Types != nil && len(q.Errors) == 0 && q.Types.Complete() {
					std[q.PkgPath] = q.Types
				}
			}
		}
	}
	r.Extra["std_packages_consulted"] = len(std)

	lookup := func(pk, recv, name string) (*types.Func, string) {
		tp := std[pk]
		if tp == nil {
			return nil, "package " + pk + " does not exist in this toolchain"
		}
		if recv == "" {
			if name == "init" {
				return nil, "init"
			}
			if f, ok := tp.Scope().Lookup(name).(*types.Func); ok {
				return f, ""
			}
			for _, n := range tp.Scope().Names() {
				if strings.EqualFold(n, name) {
					if _, ok := tp.Scope().Lookup(n).(*types.Func); ok {
						return nil, "case-typo:" + n
					}
				}
			}
			return nil, "no function " + name + " in " + pk
		}
		tn, _ := tp.Scope().Lookup(recv).(*types.TypeName)
		if tn == nil {
			return nil, "no type " + recv + " in " + pk
		}
		var recvT types.Type = types.NewPointer(tn.Type())
		if types.IsInterface(tn.Type()) {
			recvT = tn.Type()
		}
		obj, _, _ := types.LookupFieldOrMethod(recvT, true, tp, name)
		if f, ok := obj.(*types.Func); ok {
			return f, ""
		}
		ms := types.NewMethodSet(recvT)
		for i := 0; i < ms.Len(); i++ {
			if strings.EqualFold(ms.At(i).Obj().Name(), name) {
				return nil, "case-typo:" + ms.At(i).Obj().Name()
			}
		}
		return nil, "no method " + name + " on " + pk + "." + recv
	}

	resolved := map[string]*types.Func{}
	for _, e := range entries {
		pos := c.Pos(e.pos)
		if e.evalErr != "" {
			r.Fail("R09.eval", "entry|"+e.key, pos, e.evalErr)
			continue
		}
		pk, recv, name, ptr, ok := parseFuncKey(e.key)
		if !ok {
			r.Fail("R09.reach", e.mapVar+"|"+e.key, pos, fmt.Sprintf("key %q does not have the shape ssa.Function.String() produces (pkg.Name, (pkg.T).Name or (*pkg.T).Name without spaces): no function can ever match it, the intended function has no summary", e.key))
			continue
		}
		mv, okp := pkgToMap[pk]
		if !okp {
			r.Fail("R09.reach", e.mapVar+"|"+e.key, pos, fmt.Sprintf("package part %q of the key is not a key of stdPackages: the lookup stdPackages[pkg(f)] can never select this entry", pk))
			continue
		}
		if mv.Name() != e.mapVar {
			r.Fail("R09.reach", e.mapVar+"|"+e.key, pos, fmt.Sprintf("stdPackages[%q] is %s but the entry lives in %s: the lookup never sees it", pk, mv.Name(), e.mapVar))
			continue
		}
		fn, why := lookup(pk, recv, name)
		if fn == nil {
			switch {
			case why == "init":
				r.OK("R09.reach", e.mapVar+"|"+e.key, pos, "package initialiser key")
			case strings.HasPrefix(why, "case-typo:"):
				r.OK("R09.reach", e.mapVar+"|"+e.key, pos, "key reachable by lookup shape")
				r.Fail("R09.resolve", e.mapVar+"|"+e.key, pos, fmt.Sprintf("no such function; differs from existing %q by letter case only: the intended function has no summary", strings.TrimPrefix(why, "case-typo:")))
			default:
				r.OK("R09.reach", e.mapVar+"|"+e.key, pos, "key reachable by lookup shape")
				r.Note("R09.resolve.dead", e.mapVar+"|"+e.key, pos, "unresolved in this toolchain ("+why+"): dead weight, cannot lose a flow")
			}
			continue
		}
		// receiver form must match the declared receiver kind
		if recv != "" {
			sig := fn.Type().(*types.Signature)
			_, declPtr := sig.Recv().Type().(*types.Pointer)
			if types.IsInterface(sig.Recv().Type()) {
				declPtr = ptr
			}
			// methods promoted from embedded fields keep their own receiver; only compare for direct methods
			direct := false
			if n, ok := derefNamed(sig.Recv().Type()); ok && n.Obj().Name() == recv && n.Obj().Pkg() != nil && n.Obj().Pkg().Path() == pk {
				direct = true
			}
			if direct && declPtr != ptr {
				r.Fail("R09.reach", e.mapVar+"|"+e.key, pos, fmt.Sprintf("receiver form mismatch: method is declared on %s but the key uses %s; calls resolve to the declared form whose String() differs", map[bool]string{true: "*T", false: "T"}[declPtr], map[bool]string{true: "*T", false: "T"}[ptr]))
				continue
			}
		}
		r.OK("R09.reach", e.mapVar+"|"+e.key, pos, "key is found by stdPackages[pkg][f.String()]")
		r.OK("R09.resolve", e.mapVar+"|"+e.key, pos, "resolves to "+fn.FullName())
		resolved[e.key] = fn
		// ---- align
		sig := fn.Type().(*types.Signature)
		np := sig.Params().Len()
		if sig.Recv() != nil {
			np++
		}
		nr := sig.Results().Len()
		bad := []string{}
		benign := 0
		for i, row := range e.rets {
			if len(row) == 0 {
				continue
			}
			if i >= np {
				benign++
				continue
			}
			allOut := true
			for _, j := range row {
				if j >= 0 && j < nr {
					allOut = false
				}
			}
			if allOut && nr > 0 {
				bad = append(bad, fmt.Sprintf("Rets[%d]=%v but the function has %d result(s)", i, row, nr))
			} else if allOut {
				benign++
			}
		}
		for i, row := range e.args {
			if len(row) == 0 {
				continue
			}
			if i >= np {
				benign++
				continue
			}
			allOut := true
			for _, k := range row {
				if k >= 0 && k < np {
					allOut = false
				}
			}
			if allOut {
				bad = append(bad, fmt.Sprintf("Args[%d]=%v but the function has %d parameter(s) incl. receiver", i, row, np))
			}
		}
		c09contracts(c, r, e.mapVar+"|"+e.key, pos, sig, e.args)
		if len(bad) > 0 {
			r.Fail("R09.align", e.mapVar+"|"+e.key, pos, fmt.Sprintf("%s (%s): the flow the table asserts from parameter to these targets is silently discarded by the loader's range checks", strings.Join(bad, "; "), sig.String()))
		} else {
			d := fmt.Sprintf("np=%d nr=%d Args=%v Rets=%v", np, nr, e.args, e.rets)
			if benign > 0 {
				d += fmt.Sprintf(" (%d out-of-range row(s)/target(s) that cannot lose a flow)", benign)
			}
			r.OK("R09.align", e.mapVar+"|"+e.key, pos, d)
		}
	}
	rowsRule(c, r, "R09.rows")
	c09apply(c, r)
	// ---- required
	for _, k := range reqKeys {
		pk, recv, name, _, ok := parseFuncKey(k)
		if !ok {
			r.Fail("R09.required", "requiredSummaries|"+k, "", "key does not have ssa.Function.String() shape")
			continue
		}
		fn, why := lookup(pk, recv, name)
		r.Check(fn != nil, "R09.required", "requiredSummaries|"+k, "", "resolves", "does not resolve ("+why+"): the function is stubbed out instead of being analysed")
	}
	r.Floor("R09.required", 4, "5 keys measured")

	if c.Tier == "thorough" {
		c09witness(c, r, entries, resolved)
	}
}

func derefNamed(t types.Type) (*types.Named, bool) {
	t = types.Unalias(t)
	if p, ok := t.(*types.Pointer); ok {
		t = types.Unalias(p.Elem())
	}
	n, ok := t.(*types.Named)
	return n, ok
}

// c09witness: a parameter that reaches a returned value through a pure copy
// chain (phi, convert, change-type, slice, make-interface, field of a struct
// parameter...) must be listed in Rets for that parameter.
func c09witness(c *core.Ctx, r *core.Report, entries []stdEntry, resolved map[string]*types.Func) {
	n := 0
	for _, e := range entries {
		fn := resolved[e.key]
		if fn == nil {
			continue
		}
		sf := c.Prog.FuncValue(fn)
		if sf == nil || sf.Blocks == nil {
			continue
		}
		n++
		for pi, prm := range sf.Params {
			// forward closure of pure copies from prm
			reach := map[ssa.Value]bool{prm: true}
			work := []ssa.Value{prm}
			for len(work) > 0 {
				v := work[len(work)-1]
				work = work[:len(work)-1]
				if v.Referrers() == nil {
					continue
				}
				for _, ref := range *v.Referrers() {
					var out ssa.Value
					switch x := ref.(type) {
					case *ssa.Phi:
						out = x
					case *ssa.ChangeType:
						out = x
					case *ssa.Convert:
						out = x
					case *ssa.MakeInterface:
						out = x
					case *ssa.ChangeInterface:
						out = x
					case *ssa.Slice:
						if x.X == v {
							out = x
						}
					}
					if out != nil && !reach[out] {
						reach[out] = true
						work = append(work, out)
					}
				}
			}
			for _, b := range sf.Blocks {
				ret, ok := b.Instrs[len(b.Instrs)-1].(*ssa.Return)
				if !ok {
					continue
				}
				for ri, res := range ret.Results {
					if !reach[res] {
						continue
					}
					listed := false
					if pi < len(e.rets) {
						for _, j := range e.rets[pi] {
							if j == ri {
								listed = true
							}
						}
					}
					key := fmt.Sprintf("%s|%s|param%d->result%d", e.mapVar, e.key, pi, ri)
					r.Check(listed, "R09.witness", key, c.Pos(e.pos), "pure copy chain is listed in Rets",
						fmt.Sprintf("parameter %d reaches result %d through a pure copy chain in the body (%s) but Rets[%d] does not list %d", pi, ri, c.Pos(ret.Pos()), pi, ri))
				}
			}
		}
	}
	r.Extra["witness_bodies_analysed"] = n
}

// c09contracts (R09.io): type-driven cross-check of a summary row against the
// contracts of io.Reader and io.Writer, which the standard library documents
// and every summarised function with such parameters relies on:
//
//	a parameter (or receiver) whose type has Read([]byte) (int, error) and another
//	parameter of type []byte: Read stores the reader's data in the buffer, so the
//	reader position must list the buffer position in Args;
//	a parameter whose type has Write([]byte) (int, error) and another parameter of
//	type []byte or string: the data position must list the writer position.
//
// Instances are counted (the rule is confirmed on every entry of the table that
// has the shape; see the report) and each is an obligation.
func c09contracts(c *core.Ctx, r *core.Report, key, pos string, sig *types.Signature, args [][]int) {
	// the method's own name fixes the receiver's role when its type is both a reader and a writer
	mname := key[strings.LastIndex(key, ".")+1:]
	var params []types.Type
	if sig.Recv() != nil {
		params = append(params, sig.Recv().Type())
	}
	for i := 0; i < sig.Params().Len(); i++ {
		params = append(params, sig.Params().At(i).Type())
	}
	hasMethod := func(t types.Type, name string) bool {
		for _, tt := range []types.Type{t, types.NewPointer(t)} {
			obj, _, _ := types.LookupFieldOrMethod(tt, true, nil, name)
			f, ok := obj.(*types.Func)
			if !ok {
				continue
			}
			s := f.Type().(*types.Signature)
			if s.Params().Len() != 1 || s.Results().Len() != 2 {
				continue
			}
			if sl, ok := s.Params().At(0).Type().Underlying().(*types.Slice); ok {
				if b, ok := sl.Elem().Underlying().(*types.Basic); ok && b.Kind() == types.Byte {
					return true
				}
			}
		}
		return false
	}
	isBytes := func(t types.Type) bool {
		sl, ok := t.Underlying().(*types.Slice)
		if !ok {
			return false
		}
		b, ok := sl.Elem().Underlying().(*types.Basic)
		return ok && (b.Kind() == types.Byte || b.Kind() == types.Uint8)
	}
	isString := func(t types.Type) bool {
		b, ok := t.Underlying().(*types.Basic)
		return ok && b.Kind() == types.String
	}
	lists := func(i, j int) bool {
		if i >= len(args) {
			return false
		}
		for _, k := range args[i] {
			if k == j {
				return true
			}
		}
		return false
	}
	for i, ti := range params {
		for j, tj := range params {
			if i == j {
				continue
			}
			recvIs := func(role string) bool {
				return i == 0 && sig.Recv() != nil && (mname == role || (role == "Read" && mname == "ReadAt") || (role == "Write" && (mname == "WriteString" || mname == "WriteAt")))
			}
			if hasMethod(ti, "Read") && isBytes(tj) && (!hasMethod(ti, "Write") || recvIs("Read")) && !recvIs("Write") {
				r.Check(lists(i, j), "R09.io", fmt.Sprintf("%s|reader#%d->buffer#%d", key, i, j), pos,
					"the reader position flows to the buffer position",
					fmt.Sprintf("parameter #%d is a reader (has Read([]byte)) and parameter #%d a []byte buffer, but Args[%d]=%v does not list %d: the data read into the buffer is not tainted by the reader (io.Reader contract)", i, j, i, rowOf(args, i), j))
			}
			if hasMethod(ti, "Write") && (isBytes(tj) || isString(tj)) && (!hasMethod(ti, "Read") || recvIs("Write")) && !recvIs("Read") {
				r.Check(lists(j, i), "R09.io", fmt.Sprintf("%s|data#%d->writer#%d", key, j, i), pos,
					"the data position flows to the writer position",
					fmt.Sprintf("parameter #%d is a writer (has Write([]byte)) and parameter #%d the data written, but Args[%d]=%v does not list %d: what is written does not taint the writer (io.Writer contract)", i, j, j, rowOf(args, j), i))
			}
		}
	}
}

func rowOf(m [][]int, i int) []int {
	if i < len(m) {
		return m[i]
	}
	return nil
}
