#!/bin/bash
# Runs every behaviour-preserving refactoring under /verif/neutral against ALL checks; any violation is a false alarm.
for f in /verif/neutral/*/patch-*.diff; do
  out=$(/verif/tools/try_neutral.sh $f 2>&1)
  n=$(echo "$out" | grep -c 'violation')
  if echo "$out" | grep -q "does not apply"; then echo "$(basename $(dirname $f))/$(basename $f): DOES NOT APPLY (tree changed)"; continue; fi
  if [ "$n" -gt 0 ]; then echo "$(basename $(dirname $f))/$(basename $f): FALSE ALARM ($n)"; echo "$out" | grep violation | cut -c1-200; else echo "$(basename $(dirname $f))/$(basename $f): silent"; fi
done
