package core

import (
	"go/constant"
	"go/token"
	"go/types"
	"strings"

	"golang.org/x/tools/go/ssa"
)

// ReadPaths computes the field access paths read in the backward data slice of
// a value, inlining static calls to repository functions (context-sensitive:
// a callee parameter is resolved to the argument of the call being inlined).
// A path is the dotted list of field names from the root value, e.g.
// "NodeWithTrace.Trace.key" for `v.NodeWithTrace.Trace.key`. Calls that cannot
// be inlined (no body, dynamic, depth bound) contribute the slices of all
// their arguments. Calls records the names of all functions / methods called in
// the slice (inlined or not).
//
// The slice follows operands, contents of local allocations (stores into
// them), and nothing else (no control dependence, no heap aliasing).
type ReadPaths struct {
	c     *Ctx
	Paths map[string]bool
	Calls map[string]bool
	Roots map[*ssa.Parameter]bool // parameters of the outermost function reached by the slice
	Consts map[string]bool        // string constants in the slice
	Whole  map[*ssa.Parameter]bool           // outermost parameters used as whole values (not only through field projections)
	Fields map[*ssa.Parameter]map[string]bool // first-level fields read of outermost parameters
	inProj int
	seen  map[rpKey]bool
	n     int

	wantCall string
	found    []InlinedInstr
	phiSeen  map[*ssa.Phi]bool
	rootFrame *rpFrame // calling context in which the root returned by pathAndRoot lives
}

type rpFrame struct {
	call   ssa.CallInstruction // nil for frames created by value slicing
	args   []ssa.Value
	callee *ssa.Function
	parent *rpFrame
	depth  int
}

type rpKey struct {
	v  ssa.Value
	fr *rpFrame
}

// NewReadPaths slices v.
func NewReadPaths(c *Ctx, v ssa.Value) *ReadPaths {
	return newReadPathsAt(c, v, nil)
}

func newReadPathsAt(c *Ctx, v ssa.Value, fr *rpFrame) *ReadPaths {
	r := &ReadPaths{c: c, Paths: map[string]bool{}, Calls: map[string]bool{}, Roots: map[*ssa.Parameter]bool{}, Consts: map[string]bool{}, Whole: map[*ssa.Parameter]bool{}, Fields: map[*ssa.Parameter]map[string]bool{}, seen: map[rpKey]bool{}}
	r.walk(v, fr)
	return r
}

// InlinedCompare is an ordering comparison found in a function or, with the
// calling context recorded, in a repository function it statically calls.
type InlinedCompare struct {
	Cmp   *ssa.BinOp
	frame *rpFrame
	c     *Ctx
}

// Side slices one operand (0: X, 1: Y) in the comparison's calling context.
func (ic InlinedCompare) Side(i int) *ReadPaths {
	v := ic.Cmp.X
	if i == 1 {
		v = ic.Cmp.Y
	}
	return newReadPathsAt(ic.c, v, ic.frame)
}

// LenPath: if operand i is len(E), the access path of E resolved through the
// calling context ("" if it is not a len call or the path is not a field path).
func (ic InlinedCompare) LenPath(i int) (string, bool) {
	v := ic.Cmp.X
	if i == 1 {
		v = ic.Cmp.Y
	}
	arg := lenOperand(v)
	if arg == nil {
		return "", false
	}
	r := &ReadPaths{c: ic.c}
	return r.pathOf(arg, ic.frame, 0), true
}

// InlinedInstr is an instruction of a function or, with the calling context
// recorded, of a repository function it statically calls.
type InlinedInstr struct {
	Ins   ssa.Instruction
	frame *rpFrame
	c     *Ctx
}

// Slice computes the backward slice of a value of the instruction's function
// in the instruction's calling context.
func (ii InlinedInstr) Slice(v ssa.Value) *ReadPaths { return newReadPathsAt(ii.c, v, ii.frame) }

// Depth is the inlining depth (0: the function itself).
func (ii InlinedInstr) Depth() int {
	if ii.frame == nil {
		return 0
	}
	return ii.frame.depth
}

// InlinedInstrs enumerates the instructions selected by pred in fn and in the
// repository functions it statically calls (depth-bounded, no recursion).
func InlinedInstrs(c *Ctx, fn *ssa.Function, maxDepth int, pred func(ssa.Instruction) bool) []InlinedInstr {
	var res []InlinedInstr
	var visit func(f *ssa.Function, fr *rpFrame, depth int)
	visit = func(f *ssa.Function, fr *rpFrame, depth int) {
		for _, b := range f.Blocks {
			for _, ins := range b.Instrs {
				if pred(ins) {
					res = append(res, InlinedInstr{Ins: ins, frame: fr, c: c})
				}
				x, ok := ins.(ssa.CallInstruction)
				if !ok {
					continue
				}
				sc := x.Common().StaticCallee()
				if sc == nil || sc.Blocks == nil || !c.IsRepoFunc(sc) || depth >= maxDepth {
					continue
				}
				onStack := sc == fn
				for p := fr; p != nil; p = p.parent {
					if p.callee == sc {
						onStack = true
					}
				}
				if onStack {
					continue
				}
				visit(sc, &rpFrame{call: x, args: x.Common().Args, callee: sc, parent: fr, depth: depth + 1}, depth+1)
			}
		}
	}
	visit(fn, nil, 0)
	return res
}

// RootBlock is the block of the outermost function in which the instruction
// (or the call chain leading to it) sits.
func (ii InlinedInstr) RootBlock() *ssa.BasicBlock {
	root := ii.Ins.Block()
	for f := ii.frame; f != nil; f = f.parent {
		if f.parent == nil && f.call != nil {
			root = f.call.Block()
		}
	}
	return root
}

// CallsInSlice returns, with their calling contexts, the static calls to
// functions of the given name met while slicing v backwards.
func (ii InlinedInstr) CallsInSlice(v ssa.Value, name string) []InlinedInstr {
	r := newReadPathsAt(ii.c, nil, ii.frame)
	r.wantCall = name
	r.walk(v, ii.frame)
	return r.found
}

// CallChain returns the call instructions through which the instruction was
// inlined, innermost first.
func (ii InlinedInstr) CallChain() []ssa.CallInstruction {
	var res []ssa.CallInstruction
	for f := ii.frame; f != nil; f = f.parent {
		if f.call != nil {
			res = append(res, f.call)
		}
	}
	return res
}

// ControlConds returns, with their calling contexts, the branch conditions on
// which the instruction is control dependent: in its own function and, for an
// inlined instruction, those of the call sites leading to it.
func (ii InlinedInstr) ControlConds() []InlinedInstr {
	var res []InlinedInstr
	b := ii.Ins.Block()
	fr := ii.frame
	for {
		for _, iff := range ControlConds(b) {
			res = append(res, InlinedInstr{Ins: iff, frame: fr, c: ii.c})
		}
		if fr == nil || fr.call == nil {
			break
		}
		b = fr.call.Block()
		fr = fr.parent
	}
	return res
}

// PathOf renders the field access path of v in the instruction's calling context.
func (ii InlinedInstr) PathOf(v ssa.Value) string {
	r := &ReadPaths{c: ii.c}
	return r.pathOf(v, ii.frame, 0)
}

// InlinedInstrsFrom is InlinedInstrs restricted, in fn itself, to the given blocks.
func InlinedInstrsFrom(c *Ctx, fn *ssa.Function, region map[*ssa.BasicBlock]bool, maxDepth int, pred func(ssa.Instruction) bool) []InlinedInstr {
	var res []InlinedInstr
	for _, ii := range InlinedInstrs(c, fn, maxDepth, pred) {
		root := ii.Ins.Block()
		for f := ii.frame; f != nil; f = f.parent {
			if f.parent == nil {
				root = f.call.Block()
			}
		}
		if region[root] {
			res = append(res, ii)
		}
	}
	return res
}

// ReachableForKind decides whether the instruction can execute, starting at
// block `from` of the outermost function, when the value whose access path (in
// context) is subjectPath has dynamic type kind: comma-ok type assertions (and
// therefore type-switch arms) on that value are evaluated, boolean results of
// repository helpers are evaluated by the same procedure on the helper's
// returns, every other branch is explored both ways. The walk goes through the
// call sites recorded in the instruction's inlining frames.
func (ii InlinedInstr) ReachableForKind(from *ssa.BasicBlock, subjectPath string, kind types.Type) bool {
	return ii.ReachableForKindAssuming(from, subjectPath, kind, nil)
}

// ReachableForKindAssuming is ReachableForKind with assumed boolean results for
// calls to functions / methods of the given names (e.g. "IsInvoke": false).
func (ii InlinedInstr) ReachableForKindAssuming(from *ssa.BasicBlock, subjectPath string, kind types.Type, assume map[string]bool) bool {
	k := &kindEval{c: ii.c, subjectPath: subjectPath, kind: kind, assume: assume}
	// chain of (function-entry-or-from, target block, frame) from the outermost function inwards
	to := ii.Ins.Block()
	for f := ii.frame; ; f = f.parent {
		if f == nil {
			return k.reach(from, to, nil)
		}
		if !k.reach(f.callee.Blocks[0], to, f) {
			return false
		}
		to = f.call.Block()
	}
}

type kindEval struct {
	c           *Ctx
	subjectPath string
	kind        types.Type
	assume      map[string]bool
	oracle      func(v ssa.Value) (val bool, ok bool) // consulted first for every condition
}

// BoolResults evaluates which boolean values result #idx of fn can take when
// conditions are decided by oracle (undecided ones are explored both ways):
// repository helpers called for their boolean result are evaluated the same way.
func BoolResults(c *Ctx, fn *ssa.Function, idx int, oracle func(v ssa.Value) (bool, bool)) (canTrue, canFalse bool) {
	k := &kindEval{c: c, oracle: oracle, subjectPath: "\x00none"}
	for _, b := range fn.Blocks {
		ret, ok := b.Instrs[len(b.Instrs)-1].(*ssa.Return)
		if !ok || idx >= len(ret.Results) {
			continue
		}
		if !k.reach(fn.Blocks[0], b, nil) {
			continue
		}
		res := ret.Results[idx]
		if phi, isPhi := res.(*ssa.Phi); isPhi && phi.Block() == b {
			for i, p := range b.Preds {
				if !k.reachEdge(fn.Blocks[0], p, b, nil) {
					continue
				}
				if v, ok := k.known(phi.Edges[i], nil, 1); ok {
					if v {
						canTrue = true
					} else {
						canFalse = true
					}
				} else {
					canTrue, canFalse = true, true
				}
			}
			continue
		}
		if v, ok := k.known(res, nil, 0); ok {
			if v {
				canTrue = true
			} else {
				canFalse = true
			}
		} else {
			canTrue, canFalse = true, true
		}
	}
	return
}

func constBool(v ssa.Value) (bool, bool) {
	if k, isC := v.(*ssa.Const); isC && k.Value != nil && k.Value.Kind() == constant.Bool {
		return constant.BoolVal(k.Value), true
	}
	return false, false
}

func (k *kindEval) known(v ssa.Value, fr *rpFrame, d int) (val bool, ok bool) {
	if d > 8 {
		return false, false
	}
	if b, ok := constBool(v); ok {
		return b, true
	}
	if k.oracle != nil {
		if b, ok := k.oracle(v); ok {
			return b, true
		}
	}
	r := &ReadPaths{c: k.c}
	switch x := v.(type) {
	case *ssa.Extract:
		switch t := x.Tuple.(type) {
		case *ssa.TypeAssert:
			if x.Index != 1 || r.pathOf(t.X, fr, 0) != k.subjectPath {
				return false, false
			}
			if iface, isI := types.Unalias(t.AssertedType).Underlying().(*types.Interface); isI {
				return types.Implements(k.kind, iface), true
			}
			return types.Identical(k.kind, t.AssertedType), true
		case *ssa.Call:
			return k.callResult(t, x.Index, fr, d)
		}
	case *ssa.Call:
		return k.callResult(x, 0, fr, d)
	case *ssa.UnOp:
		if x.Op == token.NOT {
			if b, ok := k.known(x.X, fr, d+1); ok {
				return !b, true
			}
		}
	case *ssa.Parameter:
		if fr != nil {
			if i := ParamIndex(fr.callee, x); i >= 0 && i < len(fr.args) {
				return k.known(fr.args[i], fr.parent, d+1)
			}
		}
	case *ssa.Phi:
		// all edges known and agreeing (short-circuit && / || whose operands are all decided)
		first := true
		var acc bool
		for _, e := range x.Edges {
			b, ok := k.known(e, fr, d+1)
			if !ok {
				return false, false
			}
			if first {
				acc, first = b, false
			} else if acc != b {
				return false, false
			}
		}
		return acc, !first
	}
	return false, false
}

// callResult evaluates boolean result idx of a call: by assumption on the
// callee's name, or by evaluating the returns of a repository callee that are
// reachable for the kind.
func (k *kindEval) callResult(call *ssa.Call, idx int, fr *rpFrame, d int) (bool, bool) {
	name := ""
	sc := call.Call.StaticCallee()
	if sc != nil {
		name = sc.Name()
	} else if call.Call.IsInvoke() {
		name = call.Call.Method.Name()
	}
	if v, ok := k.assume[name]; ok {
		return v, true
	}
	depth := 0
	if fr != nil {
		depth = fr.depth
	}
	if sc == nil || sc.Blocks == nil || !k.c.IsRepoFunc(sc) || depth >= 3 {
		return false, false
	}
	for p := fr; p != nil; p = p.parent {
		if p.callee == sc {
			return false, false
		}
	}
	nf := &rpFrame{call: call, args: call.Call.Args, callee: sc, parent: fr, depth: depth + 1}
	first := true
	var acc bool
	for _, b := range sc.Blocks {
		ret, ok := b.Instrs[len(b.Instrs)-1].(*ssa.Return)
		if !ok || idx >= len(ret.Results) {
			continue
		}
		if !k.reach(sc.Blocks[0], b, nf) {
			continue
		}
		// a returned phi: evaluate per incoming edge that is itself reachable
		v, ok := k.knownAt(ret.Results[idx], b, nf, d+1)
		if !ok {
			return false, false
		}
		if first {
			acc, first = v, false
		} else if acc != v {
			return false, false
		}
	}
	return acc, !first
}

// knownAt evaluates v at the end of block b; a phi of b is evaluated over the
// predecessors through which b is reachable.
func (k *kindEval) knownAt(v ssa.Value, b *ssa.BasicBlock, fr *rpFrame, d int) (bool, bool) {
	if phi, ok := v.(*ssa.Phi); ok && phi.Block() == b {
		first := true
		var acc bool
		for i, p := range b.Preds {
			if !k.reachEdge(b.Parent().Blocks[0], p, b, fr) {
				continue
			}
			x, ok := k.known(phi.Edges[i], fr, d+1)
			if !ok {
				return false, false
			}
			if first {
				acc, first = x, false
			} else if acc != x {
				return false, false
			}
		}
		return acc, !first
	}
	return k.known(v, fr, d)
}

func (k *kindEval) reach(from, to *ssa.BasicBlock, fr *rpFrame) bool {
	return k.walk(from, to, nil, fr)
}

// reachEdge: is the CFG edge pred->b taken on some path from `from`?
func (k *kindEval) reachEdge(from, pred, b *ssa.BasicBlock, fr *rpFrame) bool {
	return k.walk(from, b, pred, fr)
}

// walk explores CFG edges from `from`; it succeeds on reaching `to` (through
// predecessor viaPred if that is non-nil). Edges rather than blocks are visited
// so that a boolean phi tested in its own block (a flag set in the arms of a type
// switch and tested after it) is evaluated for the predecessor actually taken.
func (k *kindEval) walk(from, to, viaPred *ssa.BasicBlock, fr *rpFrame) bool {
	type edge struct{ pred, b *ssa.BasicBlock }
	seen := map[edge]bool{}
	st := []edge{{nil, from}}
	for len(st) > 0 {
		e := st[len(st)-1]
		st = st[:len(st)-1]
		if e.b == to && (viaPred == nil || e.pred == viaPred) {
			return true
		}
		if seen[e] {
			continue
		}
		seen[e] = true
		blk := e.b
		if iff, ok := blk.Instrs[len(blk.Instrs)-1].(*ssa.If); ok {
			val, ok := k.known(iff.Cond, fr, 0)
			if !ok && e.pred != nil {
				if phi, isPhi := iff.Cond.(*ssa.Phi); isPhi && phi.Block() == blk {
					for i, p := range blk.Preds {
						if p == e.pred {
							val, ok = k.known(phi.Edges[i], fr, 1)
						}
					}
				}
			}
			if ok {
				if val {
					st = append(st, edge{blk, blk.Succs[0]})
				} else {
					st = append(st, edge{blk, blk.Succs[1]})
				}
				continue
			}
		}
		for _, s := range blk.Succs {
			st = append(st, edge{blk, s})
		}
	}
	return false
}

// InlinedCompares enumerates the ordering comparisons (<, <=, >, >=) of fn and
// of the repository functions it statically calls (depth-bounded inlining).
func InlinedCompares(c *Ctx, fn *ssa.Function, maxDepth int) []InlinedCompare {
	var res []InlinedCompare
	for _, ii := range InlinedInstrs(c, fn, maxDepth, func(ins ssa.Instruction) bool {
		bo, ok := ins.(*ssa.BinOp)
		if !ok {
			return false
		}
		switch bo.Op {
		case token.LSS, token.LEQ, token.GTR, token.GEQ:
			return true
		}
		return false
	}) {
		res = append(res, InlinedCompare{Cmp: ii.Ins.(*ssa.BinOp), frame: ii.frame, c: c})
	}
	return res
}

// HasSuffix reports whether some read path ends with the given components.
func (r *ReadPaths) HasSuffix(components ...string) bool {
	for p := range r.Paths {
		parts := strings.Split(p, ".")
		if len(parts) < len(components) {
			continue
		}
		ok := true
		for i := range components {
			if parts[len(parts)-len(components)+i] != components[i] {
				ok = false
			}
		}
		if ok {
			return true
		}
	}
	return false
}

func (r *ReadPaths) walk(v ssa.Value, fr *rpFrame) {
	if v == nil {
		return
	}
	k := rpKey{v, fr}
	if r.seen[k] || r.n > 20000 {
		return
	}
	r.seen[k] = true
	r.n++
	switch x := v.(type) {
	case *ssa.Parameter:
		if fr != nil {
			if i := ParamIndex(fr.callee, x); i >= 0 && i < len(fr.args) {
				r.walk(fr.args[i], fr.parent)
			}
		} else if r.Roots != nil {
			r.Roots[x] = true
			if r.inProj == 0 && r.Whole != nil {
				r.Whole[x] = true
			}
		}
		return
	case *ssa.Const:
		if r.Consts != nil && x.Value != nil && x.Value.Kind() == constant.String {
			r.Consts[constant.StringVal(x.Value)] = true
		}
		return
	case *ssa.FreeVar, *ssa.Global, *ssa.Function, *ssa.Builtin:
		return
	case *ssa.Alloc:
		r.allocContents(x, x, fr, 0)
		return
	case *ssa.MakeSlice:
		r.allocContents(nil, x, fr, 0)
	case *ssa.MakeMap:
		// contents of a locally built map
		if x.Referrers() != nil {
			for _, ref := range *x.Referrers() {
				if mu, ok := ref.(*ssa.MapUpdate); ok && mu.Map == ssa.Value(x) {
					r.walk(mu.Key, fr)
					r.walk(mu.Value, fr)
				}
			}
		}
	case *ssa.UnOp:
		if x.Op.String() == "*" {
			if p, root := r.pathAndRoot(x.X, fr, 0); p != "" {
				r.Paths[p] = true
				r.noteField(p, root)
			}
			// field-sensitive contents of a local struct: a load of field f of a local allocation depends on
			// the stores to that field and on whole-struct stores, not on the other fields
			if fa, ok := x.X.(*ssa.FieldAddr); ok {
				if al, ok := fa.X.(*ssa.Alloc); ok && al.Referrers() != nil {
					for _, ref := range *al.Referrers() {
						switch y := ref.(type) {
						case *ssa.Store:
							if y.Addr == ssa.Value(al) {
								r.walk(y.Val, fr)
							}
						case *ssa.FieldAddr:
							if y.Field == fa.Field && y.Referrers() != nil {
								for _, r2 := range *y.Referrers() {
									if st, ok := r2.(*ssa.Store); ok && st.Addr == ssa.Value(y) {
										r.walk(st.Val, fr)
									}
								}
							}
						}
					}
					return
				}
			}
		}
	case *ssa.Field:
		if p, root := r.pathAndRoot(x, fr, 0); p != "" {
			r.Paths[p] = true
			r.noteField(p, root)
		}
	case *ssa.Call:
		sc := x.Call.StaticCallee()
		depth := 0
		if fr != nil {
			depth = fr.depth
		}
		if r.wantCall != "" && sc != nil && sc.Name() == r.wantCall {
			r.found = append(r.found, InlinedInstr{Ins: x, frame: fr, c: r.c})
		}
		if sc != nil && sc.Blocks != nil && r.c.IsRepoFunc(sc) && depth < 6 && !r.onStack(sc, fr) {
			r.Calls[sc.Name()] = true
			nf := &rpFrame{args: x.Call.Args, callee: sc, parent: fr, depth: depth + 1}
			for _, b := range sc.Blocks {
				if ret, ok := b.Instrs[len(b.Instrs)-1].(*ssa.Return); ok {
					for _, rv := range ret.Results {
						r.walk(rv, nf)
					}
				}
			}
			return
		}
		name := "dynamic"
		if sc != nil {
			name = sc.Name()
		} else if x.Call.IsInvoke() {
			name = x.Call.Method.Name()
		} else if b, ok := x.Call.Value.(*ssa.Builtin); ok {
			name = b.Name()
		}
		r.Calls[name] = true
		// a getter that is not inlined (method without further arguments) is a projection of its receiver:
		// `m.Pkg()` reads the pseudo-field "Pkg()" of m
		var recv ssa.Value
		switch {
		case x.Call.IsInvoke() && len(x.Call.Args) == 0:
			recv = x.Call.Value
		case sc != nil && sc.Signature.Recv() != nil && len(x.Call.Args) == 1:
			recv = x.Call.Args[0]
		}
		if recv != nil && x.Type() != nil {
			p, root := r.pathAndRoot(recv, fr, 0)
			full := name + "()"
			if p != "" {
				full = p + "." + full
			}
			r.Paths[full] = true
			r.noteField(full, root)
			r.inProj++
			r.walk(recv, fr)
			r.inProj--
			return
		}
	}
	if ins, ok := v.(ssa.Instruction); ok {
		proj := false
		switch ins.(type) {
		case *ssa.FieldAddr, *ssa.Field:
			proj = true
		}
		if proj {
			r.inProj++
		}
		var rands []*ssa.Value
		for _, op := range ins.Operands(rands) {
			if *op != nil {
				r.walk(*op, fr)
			}
		}
		if proj {
			r.inProj--
		}
	}
}

func (r *ReadPaths) noteField(path string, root ssa.Value) {
	p, ok := root.(*ssa.Parameter)
	if !ok || r.Fields == nil {
		return
	}
	first := path
	if i := strings.Index(path, "."); i >= 0 {
		first = path[:i]
	}
	if r.Fields[p] == nil {
		r.Fields[p] = map[string]bool{}
	}
	r.Fields[p][first] = true
}

func (r *ReadPaths) onStack(fn *ssa.Function, fr *rpFrame) bool {
	for f := fr; f != nil; f = f.parent {
		if f.callee == fn {
			return true
		}
	}
	return false
}

func (r *ReadPaths) allocContents(root *ssa.Alloc, addr ssa.Value, fr *rpFrame, depth int) {
	if depth > 5 || addr.Referrers() == nil {
		return
	}
	for _, ref := range *addr.Referrers() {
		switch x := ref.(type) {
		case *ssa.Store:
			if x.Addr == addr {
				r.walk(x.Val, fr)
			}
		case *ssa.FieldAddr:
			if x.X == addr {
				r.allocContents(root, x, fr, depth+1)
			}
		case *ssa.IndexAddr:
			if x.X == addr {
				r.allocContents(root, x, fr, depth+1)
			}
		case *ssa.Slice:
			if x.X == addr {
				r.allocContents(root, x, fr, depth+1)
			}
		}
	}
}

// pathOf renders the field path of an address / field value, resolving
// parameters through the inlining frames.
func (r *ReadPaths) pathOf(v ssa.Value, fr *rpFrame, depth int) string {
	p, _ := r.pathAndRoot(v, fr, depth)
	return p
}

// pathAndRoot renders the field path of an address / field value and returns
// the value at which the path is rooted (where resolution stops: a parameter of
// the outermost function, the result of a type assertion or call, ...).
// Element accesses (indexing, range iteration) are transparent: the path of
// `x.States[i].Chan` is "States.Chan".
func (r *ReadPaths) pathAndRoot(v ssa.Value, fr *rpFrame, depth int) (string, ssa.Value) {
	if depth == 0 {
		r.phiSeen = nil
	}
	if depth > 24 {
		return "", v
	}
	join := func(prefix, name string) string {
		if prefix == "" {
			return name
		}
		return prefix + "." + name
	}
	switch x := v.(type) {
	case *ssa.FieldAddr:
		_, f := FieldOf(x)
		if f == nil {
			return "", v
		}
		p, root := r.pathAndRoot(x.X, fr, depth+1)
		return join(p, f.Name()), root
	case *ssa.Field:
		_, f := FieldOf(x)
		if f == nil {
			return "", v
		}
		p, root := r.pathAndRoot(x.X, fr, depth+1)
		return join(p, f.Name()), root
	case *ssa.UnOp:
		if x.Op.String() == "*" {
			return r.pathAndRoot(x.X, fr, depth+1)
		}
	case *ssa.IndexAddr:
		return r.pathAndRoot(x.X, fr, depth+1)
	case *ssa.Index:
		return r.pathAndRoot(x.X, fr, depth+1)
	case *ssa.Slice:
		return r.pathAndRoot(x.X, fr, depth+1)
	case *ssa.Parameter:
		if fr != nil {
			if i := ParamIndex(fr.callee, x); i >= 0 && i < len(fr.args) {
				r.rootFrame = fr.parent
				return r.pathAndRoot(fr.args[i], fr.parent, depth+1)
			}
		}
	case *ssa.Alloc:
		// spilled value (by-value receiver, address-taken local): single store
		var st *ssa.Store
		n := 0
		if x.Referrers() != nil {
			for _, ref := range *x.Referrers() {
				if s, ok := ref.(*ssa.Store); ok && s.Addr == ssa.Value(x) {
					st, n = s, n+1
				}
			}
		}
		if n == 1 {
			return r.pathAndRoot(st.Val, fr, depth+1)
		}
	case *ssa.Phi:
		// each phi is expanded once per query (loop-carried phis would otherwise be re-expanded exponentially)
		if r.phiSeen[x] {
			return "", v
		}
		if r.phiSeen == nil {
			r.phiSeen = map[*ssa.Phi]bool{}
		}
		r.phiSeen[x] = true
		for _, e := range x.Edges {
			if p, root := r.pathAndRoot(e, fr, depth+1); p != "" {
				return p, root
			}
		}
	case *ssa.ChangeType:
		return r.pathAndRoot(x.X, fr, depth+1)
	case *ssa.Extract:
		// comma-ok type assertion: the asserted value
		if _, ok := x.Tuple.(*ssa.TypeAssert); ok && x.Index == 0 {
			return "", x
		}
	}
	return "", v
}

// PathAndRoot is pathAndRoot in the instruction's calling context.
func (ii InlinedInstr) PathAndRoot(v ssa.Value) (string, ssa.Value) {
	r := &ReadPaths{c: ii.c}
	return r.pathAndRoot(v, ii.frame, 0)
}

// PathAndRootOf renders the field access path of v (no calling context) and the value it is rooted at.
// Map lookups are transparent: the path of `ea.blockEnd[bb]` is "blockEnd".
func (c *Ctx) PathAndRootOf(v ssa.Value) (string, ssa.Value) {
	for i := 0; i < 4; i++ {
		switch x := v.(type) {
		case *ssa.Extract:
			if lk, ok := x.Tuple.(*ssa.Lookup); ok && x.Index == 0 {
				v = lk.X
				continue
			}
		case *ssa.Lookup:
			v = x.X
			continue
		}
		break
	}
	r := &ReadPaths{c: c}
	return r.pathAndRoot(v, nil, 0)
}

// ReachWithOracle: can block `to` be reached from block `from` (same function)
// when the conditions decided by oracle take their decided value? Undecided
// conditions are explored both ways. With viaPred, the edge viaPred->to must be
// the last one taken.
func ReachWithOracle(c *Ctx, from, to, viaPred *ssa.BasicBlock, oracle func(v ssa.Value) (bool, bool)) bool {
	k := &kindEval{c: c, oracle: oracle, subjectPath: "\x00none"}
	return k.walk(from, to, viaPred, nil)
}
