package rules

import (
	"fmt"
	"go/ast"
	"go/types"
	"go/token"
	"sort"
	"strings"

	"golang.org/x/tools/go/ssa"

	"verif/checker/core"
)

func init() { Registry["C10"] = c10 }

// paramDeps returns the indices of fn's parameters the value depends on
// (backward slice over operands, bounded).
func paramDeps(fn *ssa.Function, v ssa.Value) map[int]bool {
	res := map[int]bool{}
	seen := map[ssa.Value]bool{}
	var walk func(v ssa.Value, d int)
	walk = func(v ssa.Value, d int) {
		if v == nil || seen[v] || d > 12 {
			return
		}
		seen[v] = true
		for i, p := range fn.Params {
			if p == v {
				res[i] = true
				return
			}
		}
		if ins, ok := v.(ssa.Instruction); ok {
			var rands []*ssa.Value
			for _, op := range ins.Operands(rands) {
				walk(*op, d+1)
			}
		}
	}
	walk(v, 0)
	return res
}

// constructedGuard: every path from the function entry to ins crosses an edge
// establishing that the summary is not constructed (`!X.Constructed` taken,
// `X.Constructed` not taken) or was just created (`X == nil` taken, `X != nil`
// not taken, X a *SummaryGraph).
func constructedGuard(ins ssa.Instruction) (bool, string) {
	fn := ins.Parent()
	establishing := func(p *ssa.BasicBlock, br int) bool {
		iff, ok := p.Instrs[len(p.Instrs)-1].(*ssa.If)
		if !ok {
			return false
		}
		cond := iff.Cond
		neg := false
		if u, ok := cond.(*ssa.UnOp); ok && u.Op == token.NOT {
			cond, neg = u.X, true
		}
		if ld, ok := cond.(*ssa.UnOp); ok && ld.Op == token.MUL {
			if _, f := core.FieldOf(ld.X); f != nil && f.Name() == "Constructed" {
				return (neg && br == 0) || (!neg && br == 1)
			}
		}
		if bo, ok := cond.(*ssa.BinOp); ok && (bo.Op == token.EQL || bo.Op == token.NEQ) {
			var other ssa.Value
			if isConstNilV(bo.X) {
				other = bo.Y
			} else if isConstNilV(bo.Y) {
				other = bo.X
			}
			if other != nil && strings.HasSuffix(other.Type().String(), "dataflow.SummaryGraph") {
				return (bo.Op == token.EQL && br == 0) || (bo.Op == token.NEQ && br == 1)
			}
		}
		return false
	}
	seen := map[*ssa.BasicBlock]bool{}
	st := []*ssa.BasicBlock{fn.Blocks[0]}
	for len(st) > 0 {
		b := st[len(st)-1]
		st = st[:len(st)-1]
		if seen[b] {
			continue
		}
		seen[b] = true
		for i, s := range b.Succs {
			if !establishing(b, i) {
				st = append(st, s)
			}
		}
	}
	if seen[ins.Block()] {
		return false, ""
	}
	return true, "every path to it crosses a !Constructed (or freshly created summary) branch"
}

func isConstNilV(v ssa.Value) bool {
	k, ok := v.(*ssa.Const)
	return ok && k.IsNil()
}

func c10(c *core.Ctx, r *core.Report) {
	r.Explain("R10.identity: PopulateGraphFromSummary passes the range key and element of Args (resp. Rets) unchanged as (src, dest) to addParamEdgeByPos (resp. (src, pos) to addReturnEdgeByPos); inside those, the forward-store owner depends only on the src position and the edge target only on the dest/pos position (SSA backward slices to the parameters). R10.bound: in the by-position writers (helpers inlined with their calling context) a comparison of a listed position with len(E) uses the table the position indexes: parameter positions against Parent.Params, result positions against the result nodes, never a result position against the parameter count. R10.load: the list of loaded contracts is grow-only (no element of a []Contract is overwritten anywhere in analysis/dataflow; positive control embedded). R10.order: in ResolveCallee the interface-contract lookup precedes call-graph and by-type resolution and returns early; in LoadExternalContractSummary the interface lookup precedes the function lookup; in BuildGraph contract enforcement precedes linking. R10.nobody: every call that runs the intra-procedural analysis on a summary (RunIntraProcedural, directly or through a one-line wrapper) is dominated by a branch establishing that the summary is not Constructed; contract summaries are marked Constructed by PopulateGraphFromSummary; ShouldBuildSummary excludes functions with external contracts.")
	r.NotDecided("the end-to-end effect for all specification matrices and call forms.")
	// ---- R10.identity: rows of the specification tables (SSA)
	rowsRule(c, r, "R10.identity")
	// SSA slices in the by-position writers (helpers they call are inlined, so the rule is indifferent to how
	// the writer is split into functions)
	for _, w := range []struct {
		name          string
		srcIdx, dstIx int
	}{{"SummaryGraph.addParamEdgeByPos", 1, 2}, {"SummaryGraph.addReturnEdgeByPos", 1, 2}} {
		fn := c.Func("analysis/dataflow", w.name)
		if fn == nil {
			r.Fail("infra.anchor-unresolved", "R10.identity|"+w.name, "", "not found")
			continue
		}
		r.Analysed("analysis/dataflow." + w.name)
		n := 0
		for _, ii := range core.InlinedInstrs(c, fn, c.Depth(3), func(ins ssa.Instruction) bool {
			mu, ok := ins.(*ssa.MapUpdate)
			// only the forward store (value is a slice of EdgeInfo)
			return ok && mapOwner(mu.Map) != nil && strings.Contains(mu.Map.Type().String(), "[]")
		}) {
			mu := ii.Ins.(*ssa.MapUpdate)
			n++
			or, kr := ii.Slice(mapOwner(mu.Map)).Roots, ii.Slice(mu.Key).Roots
			src, dst := fn.Params[w.srcIdx], fn.Params[w.dstIx]
			okk := or[src] && !or[dst] && kr[dst] && !kr[src]
			r.Check(okk, "R10.identity", fmt.Sprintf("analysis/dataflow.%s|out-write#%d", w.name, n), c.Pos(mu.Pos()),
				"edge source is selected by the src position only and edge target by the target position only",
				"the edge written for a specification entry does not go from the parameter at the src position to the node at the target position (positions swapped or mixed)")
		}
		if n == 0 {
			r.Fail("R10.identity", "analysis/dataflow."+w.name+"|out-write", c.Pos(fn.Pos()), "no forward-store write found in the writer or the helpers it calls")
		}
		// R10.bound: a listed position is only rejected against the table it indexes
		nb := 0
		for _, ic := range core.InlinedCompares(c, fn, c.Depth(3)) {
			for side := 0; side < 2; side++ {
				path, isLen := ic.LenPath(side)
				if !isLen {
					continue
				}
				roots := ic.Side(1 - side).Roots
				for idx, what := range map[int]string{w.srcIdx: "src", w.dstIx: "target"} {
					if !roots[fn.Params[idx]] {
						continue
					}
					nb++
					wantParams := what == "src" || strings.HasSuffix(w.name, "addParamEdgeByPos")
					isParams := strings.HasSuffix(path, "Params")
					key := fmt.Sprintf("analysis/dataflow.%s|%s-vs-len(%s)", w.name, what, path)
					if wantParams == isParams {
						r.OK("R10.bound", key, c.Pos(ic.Cmp.Pos()), "the position is bounded by the table it indexes")
					} else {
						r.Fail("R10.bound", key, c.Pos(ic.Cmp.Pos()), fmt.Sprintf("the %s position of %s is compared with len(%s): a %s is bounded by the %s count, so listed entries of functions with more %s are silently dropped",
							what, w.name, path, map[bool]string{true: "parameter position", false: "result position"}[wantParams],
							map[bool]string{true: "parameter", false: "result"}[isParams], map[bool]string{true: "parameters than results", false: "results than parameters"}[wantParams]))
					}
				}
			}
		}
		if nb == 0 {
			r.Fail("R10.bound", "analysis/dataflow."+w.name+"|bounds", c.Pos(fn.Pos()), "no bound check of a listed position found")
		}
	}
	r.Floor("R10.identity", 4, "two tables + two writers")

	c10load(c, r)
	c10enforce(c, r)

	// ---- R10.order
	orderRule := func(rel, fnName, key string, first func(ast.Node) bool, later func(ast.Node) bool, okMsg, failMsg string) {
		fd, _ := c.Decl(rel, fnName)
		if fd == nil {
			r.Fail("infra.anchor-unresolved", "R10.order|"+fnName, "", "not found")
			return
		}
		r.Analysed(rel + "." + fnName)
		firstIdx, laterIdx := -1, -1
		for i, st := range fd.Body.List {
			if firstIdx < 0 && exprAny(st, first) {
				firstIdx = i
			}
			if laterIdx < 0 && exprAny(st, later) && !exprAny(st, first) {
				laterIdx = i
			}
		}
		r.Check(firstIdx >= 0 && laterIdx >= 0 && firstIdx < laterIdx, "R10.order", rel+"."+fnName+"|"+key, c.Pos(fd.Pos()), okMsg, failMsg)
	}
	sel := func(name string) func(ast.Node) bool {
		return func(n ast.Node) bool { se, ok := n.(*ast.SelectorExpr); return ok && se.Sel.Name == name }
	}
	callTo := func(name string) func(ast.Node) bool {
		return func(n ast.Node) bool {
			call, ok := n.(*ast.CallExpr)
			if !ok {
				return false
			}
			switch f := call.Fun.(type) {
			case *ast.Ident:
				return f.Name == name
			case *ast.SelectorExpr:
				return f.Sel.Name == name
			}
			return false
		}
	}
	orderRule("analysis/dataflow", "AnalyzerState.ResolveCallee", "contract-before-callgraph", sel("DataFlowContracts"), sel("PointerAnalysis"),
		"interface-contract lookup precedes call-graph resolution", "call-graph resolution is consulted before (or instead of) the interface contract: analysed implementations take precedence over the interface-method specification")
	orderRule("analysis/dataflow", "AnalyzerState.ResolveCallee", "contract-before-bytype", sel("DataFlowContracts"), sel("ImplementationsByType"),
		"interface-contract lookup precedes by-type resolution", "by-type resolution is consulted before the interface contract")
	// the contract branch returns
	if fd, _ := c.Decl("analysis/dataflow", "AnalyzerState.ResolveCallee"); fd != nil {
		ret := false
		for _, st := range fd.Body.List {
			if ifs, ok := st.(*ast.IfStmt); ok && exprAny(ifs, sel("DataFlowContracts")) {
				ret = exprAny(ifs.Body, func(n ast.Node) bool { _, ok := n.(*ast.ReturnStmt); return ok })
			}
		}
		r.Check(ret, "R10.order", "analysis/dataflow.AnalyzerState.ResolveCallee|contract-returns-early", c.Pos(fd.Pos()), "a found interface contract is returned as the only callee", "the interface contract does not short-circuit resolution: implementations are analysed alongside the specification")
	}
	orderRule("analysis/dataflow", "AnalyzerState.LoadExternalContractSummary", "interface-before-function", callTo("InterfaceMethodKey"), callTo("String"),
		"interface-method specification is looked up before the function specification", "function specification is looked up before the interface-method specification")
	// a statement "does X" if it calls X or a repository function whose call cone contains X (helpers extracted
	// from BuildGraph keep the order of the steps)
	dfPkg := c.Pkg("analysis/dataflow")
	callReaches := func(name string) func(ast.Node) bool {
		direct := callTo(name)
		return func(n ast.Node) bool {
			if direct(n) {
				return true
			}
			call, ok := n.(*ast.CallExpr)
			if !ok || dfPkg == nil {
				return false
			}
			obj, _ := core.CalleeObj(call, dfPkg.TypesInfo).(*types.Func)
			if obj == nil {
				return false
			}
			sf := c.Prog.FuncValue(obj)
			if sf == nil || !c.IsRepoFunc(sf) {
				return false
			}
			for f := range c.RepoGraph().Cone(false, sf) {
				if f.Name() == name {
					return true
				}
			}
			return false
		}
	}
	orderRule("analysis/dataflow", "InterProceduralFlowGraph.BuildGraph", "contracts-before-linking", callReaches("LoadExternalContractSummary"), callReaches("resolveCalleeSummary"),
		"contract enforcement (step 2) precedes linking (step 3)", "summaries are linked before contracts are enforced: calls get the analysed summary instead of the specification")
	r.Floor("R10.order", 5, "five ordering obligations")

	// ---- R10.nobody
	run := c.Func("analysis/dataflow", "RunIntraProcedural")
	if run == nil {
		r.Fail("infra.anchor-unresolved", "R10.nobody|RunIntraProcedural", "", "not found")
		return
	}
	// wrappers: functions whose body calls RunIntraProcedural unconditionally with their own parameter
	targets := map[*ssa.Function]bool{run: true}
	isWrapper := func(fn *ssa.Function) bool {
		for _, b := range fn.Blocks {
			for _, ins := range b.Instrs {
				if sc := core.StaticCalleeOf(ins); sc != nil && targets[sc] {
					if ins.Block() == fn.Blocks[0] || fn.Blocks[0].Dominates(ins.Block()) {
						ok, _ := constructedGuard(ins)
						if ok {
							return false
						}
						// summary argument is a parameter
						args := ins.(ssa.CallInstruction).Common().Args
						for _, a := range args {
							if _, isP := a.(*ssa.Parameter); isP && strings.HasSuffix(a.Type().String(), "SummaryGraph") {
								return core.PostDom(fn)[0][ins.Block().Index]
							}
						}
					}
				}
			}
		}
		return false
	}
	for round := 0; round < 3; round++ {
		for _, fn := range c.RepoFunctions() {
			if !targets[fn] && !strings.HasSuffix(c.Fset.Position(fn.Pos()).Filename, "_test.go") && isWrapper(fn) {
				targets[fn] = true
			}
		}
	}
	var tn []string
	for t := range targets {
		tn = append(tn, c.FuncName(t))
	}
	sort.Strings(tn)
	r.Extra["intra_procedural_entry_points"] = tn
	cnt := map[string]int{}
	for _, fn := range c.RepoFunctions() {
		if targets[fn] || strings.HasSuffix(c.Fset.Position(fn.Pos()).Filename, "_test.go") || strings.HasPrefix(c.FuncPkgRel(fn), "cmd/") {
			continue
		}
		for _, b := range fn.Blocks {
			for _, ins := range b.Instrs {
				sc := core.StaticCalleeOf(ins)
				if sc == nil || !targets[sc] {
					continue
				}
				name := c.FuncName(fn)
				cnt[name]++
				key := fmt.Sprintf("%s|run#%d", name, cnt[name])
				ok, how := constructedGuard(ins)
				if !ok {
					// IntraProceduralAnalysis: guarded by its buildSummary parameter, decided by ShouldBuildSummary
					for d := ins.Block(); d != nil && !ok; d = d.Idom() {
						for _, p := range d.Preds {
							if iff, isIf := p.Instrs[len(p.Instrs)-1].(*ssa.If); isIf && p.Succs[0] == d && len(d.Preds) == 1 {
								if prm, isP := iff.Cond.(*ssa.Parameter); isP && strings.Contains(strings.ToLower(prm.Name()), "build") {
									ok, how = true, "guarded by the caller-supplied "+prm.Name()+" flag (ShouldBuildSummary)"
								}
							}
						}
					}
				}
				r.Check(ok, "R10.nobody", key, c.Pos(ins.Pos()), "intra-procedural analysis is run only on a summary established as not Constructed: "+how,
					"the intra-procedural analysis is run on a summary without a dominating !Constructed test: a summary built from a dataflow specification (marked Constructed) can be re-analysed from the function body, overriding the specification")
			}
		}
	}
	r.Floor("R10.nobody", 8, "on-demand sites in taint and backtrace, BuildSummary, IntraProceduralAnalysis")
	// contract graphs are marked constructed; ShouldBuildSummary consults contracts
	if pf := c.Func("analysis/dataflow", "SummaryGraph.PopulateGraphFromSummary"); pf != nil {
		var storeB *ssa.BasicBlock
		for _, b := range pf.Blocks {
			for _, ins := range b.Instrs {
				if st, ok := ins.(*ssa.Store); ok {
					if _, f := core.FieldOf(st.Addr); f != nil && f.Name() == "Constructed" {
						if k, ok := st.Val.(*ssa.Const); ok && k.Value != nil && k.Value.ExactString() == "true" {
							storeB = b
						}
					}
				}
			}
		}
		sets := storeB != nil
		for _, b := range pf.Blocks {
			if _, isRet := b.Instrs[len(b.Instrs)-1].(*ssa.Return); !isRet || storeB == nil {
				continue
			}
			if storeB.Dominates(b) {
				continue
			}
			// early return for a nil receiver is the only allowed bypass
			nilBypass := false
			if len(b.Preds) == 1 {
				if iff, ok := b.Preds[0].Instrs[len(b.Preds[0].Instrs)-1].(*ssa.If); ok && b.Preds[0].Succs[0] == b {
					if bo, ok := iff.Cond.(*ssa.BinOp); ok && bo.Op == token.EQL && (isConstNilV(bo.X) || isConstNilV(bo.Y)) {
						nilBypass = true
					}
				}
			}
			if !nilBypass {
				sets = false
			}
		}
		r.Check(sets, "R10.nobody", "analysis/dataflow.SummaryGraph.PopulateGraphFromSummary|marks-constructed", c.Pos(pf.Pos()), "a graph populated from a specification is marked Constructed on every path", "a graph populated from a specification is not marked Constructed: its body will be analysed on demand")
	}
	if fd, _ := c.Decl("analysis/dataflow", "ShouldBuildSummary"); fd != nil {
		r.Check(exprAny(fd.Body, callTo("HasExternalContractSummary")), "R10.nobody", "analysis/dataflow.ShouldBuildSummary|consults-contracts", c.Pos(fd.Pos()), "eager summarisation skips functions with an external contract", "ShouldBuildSummary no longer consults external contracts: contract functions are summarised from their body")
	}
}
