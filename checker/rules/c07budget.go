package rules

import (
	"fmt"
	"strings"

	"verif/checker/core"
)

// c07budget (R07.budget): a function that recurses over go/types with an
// integer budget terminates on recursive types only if the budget strictly
// decreases on every step that can be part of a cycle of the type graph. A
// cycle always goes through a composite type; only Pointer.Elem and
// Named/Alias.Underlying steps may keep the budget. Any other self-recursive
// call (struct field, slice / array / map / chan element or key, tuple
// element) must pass `budget - k` (k > 0) on every incoming edge of the
// argument. (Functions that recurse over types without any budget are listed
// as information: those found terminate because they stop at named types or
// recurse through by-value nesting only.)
func c07budget(c *core.Ctx, r *core.Report) {
	r.Explain("R07.budget: every self-recursive call over a go/types.Type in a function with an integer budget parameter passes a strictly smaller budget on every edge, except for Pointer.Elem and Underlying steps (which cannot close a cycle of the type graph alone).")
	n := 0
	for _, fn := range c.RepoFunctions() {
		if strings.HasSuffix(c.Fset.Position(fn.Pos()).Filename, "_test.go") {
			continue
		}
		rel := c.FuncPkgRel(fn)
		if !strings.HasPrefix(rel, "analysis/") && !strings.HasPrefix(rel, "internal/analysisutil") {
			continue
		}
		seen := map[string]int{}
		for _, tr := range core.TypeRecursions(c, fn) {
			if tr.Budget == "none" || tr.HasSeenSet {
				continue
			}
			n++
			key := fmt.Sprintf("%s|%s", c.FuncName(fn), tr.Step)
			seen[key]++
			if seen[key] > 1 {
				key = fmt.Sprintf("%s#%d", key, seen[key])
			}
			keep := tr.Step == "Pointer.Elem" || strings.HasSuffix(tr.Step, ".Underlying") || tr.Step == "Underlying"
			switch {
			case tr.Budget == "decreases":
				r.OK("R07.budget", key, c.Pos(tr.Call.Pos()), "the budget strictly decreases")
			case keep:
				r.OK("R07.budget", key, c.Pos(tr.Call.Pos()), "pointer / underlying step: cannot close a cycle of the type graph alone")
			default:
				r.Fail("R07.budget", key, c.Pos(tr.Call.Pos()), "the recursion over the type graph keeps its budget on a "+tr.Step+" step ("+tr.Budget+"): on a recursive type (e.g. `type Scope struct{ *Scope; ... }`) the function never returns and the analysis dies with a stack overflow")
			}
		}
	}
	if n < 4 {
		r.Fail("infra.floor", "R07.budget", "", fmt.Sprintf("only %d budgeted recursive calls over types found", n))
	}
}
