package rules

import (
	"go/ast"
	"go/token"
	"go/types"
	"sort"
	"strings"

	"golang.org/x/tools/go/ssa"

	"verif/checker/core"
)

func init() { Registry["C18"] = c18 }

// operands of the function-value scan that cannot be (or contain) a function value
var noFuncOperand = map[string]string{
	"SliceToArrayPointer.X": "operand is a slice; a *ssa.Function (function-typed) can never appear there, and instruction-defined operands are visited as instructions",
	"MultiConvert.X":        "only in uninstantiated generic bodies (R07.mode)",
	"Defer.DeferStack":      "range-over-func defer stack handle, not a function value",
}

func c18(c *core.Ctx, r *core.Report) {
	r.Explain("R18.operands: the address-taken-function scan (reachability.preTraversalVisitValuesInstruction) must read, for every ssa.Instruction kind, every operand field that go/ssa's own Operands method exposes for that kind (a *ssa.Function can appear as any operand: call value, call argument, stored value, compared value, ...); kinds without a case are discharged only if they have no operand that can hold a function value. R18.calls: findCallees' switch arms for call instructions are non-empty or the callee operand is covered by the operand scan (checked via R18.operands on Call.Value). R18.iface: if the methods marked at a MakeInterface depend on the static interface type, conversions that widen the callable method set (TypeAssert to an interface, ChangeInterface) must be handled too. R18.roots: entry selection is monotone in the two exclusion flags (each disjunct is guarded by the negated flag). R18.memo: any get-or-compute cache in the reachability package stores only values whose inputs all contribute to the cache key (interprocedural data dependence; positive controls from an embedded fixture are re-run on every check).")
	r.NotDecided("containment of the pointer-analysis call graph in the reported set; reflection; anything about executions.")
	tab, probs := c.OperandTable()
	for _, p := range probs {
		r.Fail("infra.operand-table", p, "", "cannot extract go/ssa operand table")
	}
	d := c.FindDispatch("analysis/reachability", "preTraversalVisitValuesInstruction", core.SSAPath, "Instruction")
	if d == nil {
		r.Fail("infra.anchor-unresolved", "R18.operands|analysis/reachability.preTraversalVisitValuesInstruction", "", "not found")
		return
	}
	r.Analysed(d.Func)
	info := d.Pkg.TypesInfo
	for _, im := range d.Impls {
		name := strings.TrimPrefix(core.ShortType(im), "*ssa.")
		ops := tab[name]
		cl := d.Switch.ClauseFor(im)
		// selectors read inside the clause, rooted anywhere: F, Call.F (x.Call.F or common.F)
		read := map[string]bool{}
		if cl != nil {
			ast.Inspect(cl.Clause, func(n ast.Node) bool {
				se, ok := n.(*ast.SelectorExpr)
				if !ok {
					return true
				}
				t := info.TypeOf(se.X)
				switch core.SSATypeName(t) {
				case name:
					read[se.Sel.Name] = true
				case "CallCommon":
					read["Call."+se.Sel.Name] = true
				case "SelectState":
					read["States."+se.Sel.Name] = true
				}
				return true
			})
		}
		if len(ops) == 0 {
			r.OK("R18.operands", d.Func+"|"+name, c.Pos(d.Switch.Stmt.Pos()), "kind has no operands")
			continue
		}
		for _, op := range ops {
			key := d.Func + "|" + name + "." + op
			pos := c.Pos(d.Switch.Stmt.Pos())
			if cl != nil {
				pos = c.Pos(cl.Clause.Pos())
			}
			switch {
			case read[op]:
				r.OK("R18.operands", key, pos, "operand is visited")
			case noFuncOperand[name+"."+op] != "":
				r.Except("R18.operands", key, pos, noFuncOperand[name+"."+op])
			default:
				what := "the arm for " + name + " does not visit it"
				if cl == nil {
					what = "there is no arm for " + name
				}
				r.Fail("R18.operands", key, pos, "operand "+name+"."+op+" is not scanned for function values ("+what+"): a function that is only referenced there (e.g. passed as an argument of a go/defer call) is reported unreachable although it runs")
			}
		}
	}
	r.Floor("R18.operands", 50, "~60 operand fields")

	// ---- R18.iface
	fic := c.Func("analysis/reachability", "findInterfaceCallees")
	fcd := c.FindDispatch("analysis/reachability", "findCallees", core.SSAPath, "Instruction")
	if fic == nil || fcd == nil {
		r.Fail("infra.anchor-unresolved", "R18.iface|analysis/reachability.findInterfaceCallees/findCallees", "", "not found")
	} else {
		r.Analysed("analysis/reachability.findInterfaceCallees")
		dep := false
		for _, p := range fic.Params {
			if types.IsInterface(p.Type()) && p.Type().String() == "go/types.Type" && p.Referrers() != nil && len(*p.Referrers()) > 0 {
				for _, ref := range *p.Referrers() {
					if _, isDbg := ref.(interface{ IsDebugRef() }); !isDbg {
						dep = true
					}
				}
			}
		}
		handles := map[string]bool{}
		for _, cl := range fcd.Switch.Clauses {
			for _, t := range cl.Types {
				if t != nil && len(cl.Clause.Body) > 0 {
					handles[core.ShortType(t)] = true
				}
			}
		}
		ok := !dep || (handles["*ssa.TypeAssert"] && handles["*ssa.ChangeInterface"])
		r.Check(ok, "R18.iface", "analysis/reachability.findInterfaceCallees|static-interface-filter", c.Pos(fic.Pos()),
			"method marking at interface conversions does not under-approximate later widening conversions",
			"the methods marked at a MakeInterface are filtered by the methods of the conversion's static interface, while TypeAssert-to-interface and ChangeInterface (which make further methods of the same dynamic value callable) are not handled: `var r io.Reader = f; r.(io.Closer).Close()` runs (*T).Close without it being in the reachable set")
		r.Check(handles["*ssa.MakeInterface"], "R18.iface", "analysis/reachability.findCallees|MakeInterface-arm", c.Pos(fcd.Switch.Stmt.Pos()),
			"interface conversions mark methods of the converted type", "no arm for MakeInterface: methods called through interfaces are never reachable")
	}

	// ---- R18.roots
	if fd, p := c.Decl("analysis/reachability", "findEntryPoints"); fd != nil {
		r.Analysed("analysis/reachability.findEntryPoints")
		var flags []types.Object
		for _, fl := range fd.Type.Params.List {
			if b, ok := p.TypesInfo.TypeOf(fl.Type).Underlying().(*types.Basic); ok && b.Kind() == types.Bool {
				for _, n := range fl.Names {
					flags = append(flags, p.TypesInfo.ObjectOf(n))
				}
			}
		}
		// every use of a flag must be under a NOT, inside a conjunction, in an if condition
		n := 0
		bad := []string{}
		var stack []ast.Node
		ast.Inspect(fd.Body, func(nd ast.Node) bool {
			if nd == nil {
				stack = stack[:len(stack)-1]
				return true
			}
			stack = append(stack, nd)
			id, ok := nd.(*ast.Ident)
			if !ok {
				return true
			}
			isFlag := false
			for _, f := range flags {
				if p.TypesInfo.ObjectOf(id) == f {
					isFlag = true
				}
			}
			if !isFlag {
				return true
			}
			n++
			negated := false
			if len(stack) >= 2 {
				if u, ok := stack[len(stack)-2].(*ast.UnaryExpr); ok && u.Op == token.NOT {
					negated = true
				}
			}
			if !negated {
				bad = append(bad, id.Name+"@"+c.Pos(id.Pos()))
			}
			return true
		})
		sort.Strings(bad)
		r.Check(n >= 2 && len(bad) == 0, "R18.roots", "analysis/reachability.findEntryPoints|monotone", c.Pos(fd.Pos()),
			"exclusion flags only occur negated: setting a flag can only remove roots", "an exclusion flag is used un-negated ("+strings.Join(bad, ",")+"): excluding main/init could add roots, the reported set would not shrink monotonically")
	} else {
		r.Fail("infra.anchor-unresolved", "R18.roots|analysis/reachability.findEntryPoints", "", "not found")
	}

	// ---- R18.memo
	memoRule(c, r, "R18.memo", func(fn *ssa.Function, rel string) bool { return rel == "analysis/reachability" },
		"methods made callable by a conversion to a different interface (or any callee depending on the missing input) are not marked reachable")
}
