package rules

import (
	"fmt"
	"go/types"
	"sort"
	"strings"

	"golang.org/x/tools/go/ssa"

	"verif/checker/core"
)

// seenKeyRule: the visited set of an inter-procedural traversal must not merge
// distinct traversal states. Structural necessary conditions decided here:
//
//	(a) every key used to look up / update the visited set (a map keyed by
//	    dataflow.KeyType with bool values) in pkg.(*Visitor).addNext is computed
//	    from the visited node's graph node, from the full-path key of its call
//	    stack (…Trace.key) and from the full-path key of its closure stack
//	    (…ClosureTrace.key)  — backward slice with inlining (core.ReadPaths);
//	(b) (treeKeyRule) the full-path key of a stack node is built from its
//	    parent's full-path key and the node's own label.
func seenKeyRule(c *core.Ctx, r *core.Report, rule, pkgRel, consequence string) {
	r.Explain(rule + ": every key used to look up / update the traversal visited set (map keyed by dataflow.KeyType) in " + pkgRel + ".(*Visitor).addNext is computed - backward slice with inlining - from the graph node and from the full-path keys of the call stack (Trace.key) and of the closure stack (ClosureTrace.key); every store to NodeTree.key is built from the label LongID and, when a parent exists, the parent key.")
	fn := c.Func(pkgRel, "Visitor.addNext")
	if fn == nil {
		r.Fail("infra.anchor-unresolved", rule+"|"+pkgRel+".Visitor.addNext", "", "not found")
		return
	}
	r.Analysed(pkgRel + ".Visitor.addNext")
	isSeenMap := func(t types.Type) bool {
		m, ok := types.Unalias(t).Underlying().(*types.Map)
		if !ok {
			return false
		}
		b, ok := types.Unalias(m.Elem()).Underlying().(*types.Basic)
		return ok && b.Kind() == types.Bool && strings.HasSuffix(m.Key().String(), "dataflow.KeyType")
	}
	n := map[string]int{}
	for _, b := range fn.Blocks {
		for _, ins := range b.Instrs {
			var key ssa.Value
			kind := ""
			switch x := ins.(type) {
			case *ssa.Lookup:
				if isSeenMap(x.X.Type()) {
					key, kind = x.Index, "lookup"
				}
			case *ssa.MapUpdate:
				if isSeenMap(x.Map.Type()) {
					key, kind = x.Key, "update"
				}
			}
			if key == nil {
				continue
			}
			n[kind]++
			rp := core.NewReadPaths(c, key)
			var missing []string
			if !rp.HasSuffix("Node") {
				missing = append(missing, "the graph node")
			}
			if !rp.HasSuffix("Trace", "key") {
				missing = append(missing, "the full call-stack key (Trace.key)")
			}
			if !rp.HasSuffix("ClosureTrace", "key") {
				missing = append(missing, "the full closure-stack key (ClosureTrace.key)")
			}
			var paths []string
			for p := range rp.Paths {
				paths = append(paths, p)
			}
			sort.Strings(paths)
			r.Check(len(missing) == 0, rule, fmt.Sprintf("%s.Visitor.addNext|visited-%s#%d", pkgRel, kind, n[kind]), c.Pos(ins.Pos()),
				"the visited-set key is computed from the node and the full-path keys of both stacks (reads: "+strings.Join(paths, ", ")+")",
				"the visited-set key does not depend on "+strings.Join(missing, " / ")+" (it reads only: "+strings.Join(paths, ", ")+"): two traversal states that differ there are merged and the second is dropped; "+consequence)
		}
	}
	if n["lookup"] == 0 || n["update"] == 0 {
		r.Fail(rule, pkgRel+".Visitor.addNext|visited-set", c.Pos(fn.Pos()), "no lookup/update of a visited set keyed by dataflow.KeyType found: the traversal's termination/merging discipline is not the one this rule decides")
	}
}

// treeKeyRule: every store to NodeTree.key writes a value that depends on the
// parent's key (when the function has a NodeTree receiver/parameter, i.e. a
// parent exists) and on the label's identifier (LongID).
func treeKeyRule(c *core.Ctx, r *core.Report, rule, consequence string) {
	n := 0
	for _, fn := range c.RepoFunctions() {
		if c.FuncPkgRel(fn) != "analysis/dataflow" || strings.HasSuffix(c.Fset.Position(fn.Pos()).Filename, "_test.go") {
			continue
		}
		if len(fn.TypeArgs()) > 0 && fn.Origin() != nil {
			// analyse each instantiation: keys are per instantiation but reported once per origin
		}
		hasParent := false
		for _, p := range fn.Params {
			if strings.Contains(core.ShortType(p.Type()), "NodeTree") {
				hasParent = true
			}
		}
		for _, b := range fn.Blocks {
			for _, ins := range b.Instrs {
				st, ok := ins.(*ssa.Store)
				if !ok {
					continue
				}
				nt, f := core.FieldOf(st.Addr)
				if nt == nil || f.Name() != "key" || nt.Origin().Obj().Name() != "NodeTree" {
					continue
				}
				n++
				rp := core.NewReadPaths(c, st.Val)
				ok1 := rp.Calls["LongID"]
				ok2 := !hasParent || rp.HasSuffix("key")
				name := c.FuncName(fn)
				if o := fn.Origin(); o != nil {
					name = c.FuncName(o) + "[" + core.ShortType(fn.TypeArgs()[0]) + "]"
				}
				var paths []string
				for p := range rp.Paths {
					paths = append(paths, p)
				}
				sort.Strings(paths)
				r.Check(ok1 && ok2, rule, name+"|NodeTree.key", c.Pos(st.Pos()),
					"the stack node's key is built from the label's identifier and, when there is a parent, the parent's full-path key",
					fmt.Sprintf("the key of a stack node is not built from %s (reads: %s): distinct call stacks get equal keys; %s",
						map[bool]string{true: "the label's LongID", false: "the parent's full-path key"}[!ok1], strings.Join(paths, ", "), consequence))
			}
		}
	}
	if n < 2 {
		r.Fail(rule, "analysis/dataflow.NodeTree|key-writers", "", fmt.Sprintf("only %d store(s) to NodeTree.key found (root constructor and Add expected)", n))
	}
}

// seenEnqueueRule: a traversal state is marked visited only if it is also
// enqueued. In (*Visitor).addNext, no path leads from the update of the visited
// set to a return without passing (before or after) through the append that
// puts the node on the work queue. Otherwise a state that is dropped for another
// reason (an edge guarded by a validator, an escape-context stop) is recorded as
// seen, and a later legitimate arrival at the same state through another edge
// is discarded as a duplicate: the flow through it is lost.
func seenEnqueueRule(c *core.Ctx, r *core.Report, rule, pkgRel string) {
	r.Explain(rule + ": in " + pkgRel + ".(*Visitor).addNext every path through the update of the visited set also executes the append of the node to the work queue (marked visited => enqueued).")
	fn := c.Func(pkgRel, "Visitor.addNext")
	if fn == nil {
		r.Fail("infra.anchor-unresolved", rule+"|"+pkgRel+".Visitor.addNext", "", "not found")
		return
	}
	isQueueAppend := func(ins ssa.Instruction) bool {
		call, ok := ins.(*ssa.Call)
		if !ok {
			return false
		}
		b, ok := call.Call.Value.(*ssa.Builtin)
		if !ok || b.Name() != "append" || len(call.Call.Args) == 0 {
			return false
		}
		return strings.Contains(call.Call.Args[0].Type().String(), "dataflow.VisitorNode")
	}
	isSeenUpdate := func(ins ssa.Instruction) bool {
		mu, ok := ins.(*ssa.MapUpdate)
		if !ok {
			return false
		}
		m, ok := types.Unalias(mu.Map.Type()).Underlying().(*types.Map)
		if !ok {
			return false
		}
		b, ok := types.Unalias(m.Elem()).Underlying().(*types.Basic)
		return ok && b.Kind() == types.Bool && strings.HasSuffix(m.Key().String(), "dataflow.KeyType")
	}
	enq := map[*ssa.BasicBlock]int{} // block -> index of the append
	var updates []ssa.Instruction
	for _, b := range fn.Blocks {
		for i, ins := range b.Instrs {
			if isQueueAppend(ins) {
				enq[b] = i
			}
			if isSeenUpdate(ins) {
				updates = append(updates, ins)
			}
		}
	}
	if len(updates) == 0 || len(enq) == 0 {
		r.Fail(rule, pkgRel+".Visitor.addNext|visited-and-queue", c.Pos(fn.Pos()), "no visited-set update or no append to the work queue found")
		return
	}
	for i, u := range updates {
		b := u.Block()
		ui := core.InstrIndex(u)
		ok := false
		// enqueued before on every path: an enqueue block dominates the update (or precedes it in its block)
		for eb, ei := range enq {
			if (eb == b && ei < ui) || (eb != b && eb.Dominates(b)) {
				ok = true
			}
		}
		if !ok {
			// enqueued after on every path: no return reachable from the update without crossing an enqueue
			escaped := false
			if ei, same := enq[b]; !(same && ei > ui) {
				seen := map[*ssa.BasicBlock]bool{}
				st := append([]*ssa.BasicBlock{}, b.Succs...)
				if len(b.Succs) == 0 {
					escaped = true
				}
				for len(st) > 0 && !escaped {
					x := st[len(st)-1]
					st = st[:len(st)-1]
					if seen[x] {
						continue
					}
					seen[x] = true
					if _, has := enq[x]; has {
						continue
					}
					if _, isRet := x.Instrs[len(x.Instrs)-1].(*ssa.Return); isRet {
						escaped = true
					}
					st = append(st, x.Succs...)
				}
			}
			ok = !escaped
		}
		r.Check(ok, rule, fmt.Sprintf("%s.Visitor.addNext|visited-implies-enqueued#%d", pkgRel, i+1), c.Pos(u.Pos()),
			"a state marked visited is enqueued on every path",
			"the state is marked visited on a path that returns without enqueuing it (a stop condition sits between the visited-set update and the append to the queue): when the state is later reached through another edge it is discarded as already seen and the flow through it is lost")
	}
}
