// Command argotcheck decides structural rules about awslabs/ar-go-tools
// (in /repo) by static analysis of its source: go/packages + go/types + go/ssa.
package main

import (
	"flag"
	"fmt"
	"os"
	"runtime/debug"
	"strconv"
	"time"

	"verif/checker/core"
	"verif/checker/rules"
)

func main() {
	prop := flag.String("property", "", "property id (C01..C20)")
	tier := flag.String("tier", "quick", "quick|thorough")
	repo := flag.String("repo", "/repo", "repository under analysis")
	verif := flag.String("verif", "/verif", "verif directory (evidence, reports, known findings)")
	explain := flag.String("explain", "", "print the report file after running")
	flag.Parse()
	if t := os.Getenv("VERIF_TIER"); t != "" && *tier == "" {
		*tier = t
	}
	seed, _ := strconv.ParseInt(os.Getenv("VERIF_SEED"), 10, 64)
	start := time.Now()
	rule, ok := rules.Registry[*prop]
	if !ok {
		fmt.Fprintf(os.Stderr, "unknown property %q\n", *prop)
		os.Exit(2)
	}
	rep := core.NewReport(*prop, *tier)
	known, err := core.LoadKnown(*verif + "/known_findings.jsonl")
	if err != nil {
		rep.Fail("infra.known-findings", "load", "", err.Error())
	}
	pk := 0
	func() {
		defer func() {
			if x := recover(); x != nil {
				rep.Fail("infra.panic", fmt.Sprint(x), "", string(debug.Stack()))
			}
		}()
		ctx, err := core.Load(*repo, *tier, false)
		if err != nil {
			rep.Fail("infra.load", "load", "", err.Error())
			return
		}
		pk = len(ctx.All)
		rep.Extra["root_packages"] = len(ctx.Roots)
		rule(ctx, rep)
	}()
	code := rep.Finish(*verif, known, seed, start, pk)
	if *explain != "" {
		b, _ := os.ReadFile(*verif + "/reports/" + *prop + ".txt")
		os.Stdout.Write(b)
	}
	os.Exit(code)
}
