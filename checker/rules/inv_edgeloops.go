package rules

import (
	"fmt"
	"sort"

	"golang.org/x/tools/go/ssa"

	"verif/checker/core"
)

func init() { Registry["INV-edgeloops"] = invEdgeLoops }

// edgeLoopOf returns the outermost loop containing b whose header iterates over the result of N.Out() / N.In().
func edgeLoopOf(b *ssa.BasicBlock) *core.Loop {
	var best *core.Loop
	for _, l := range core.Loops(b.Parent()) {
		if !l.Body[b] {
			continue
		}
		isEdge := false
		for _, ins := range l.Header.Instrs {
			nx, ok := ins.(*ssa.Next)
			if !ok {
				continue
			}
			rg, ok := nx.Iter.(*ssa.Range)
			if !ok {
				continue
			}
			if call, ok := rg.X.(*ssa.Call); ok {
				name := ""
				if call.Call.IsInvoke() {
					name = call.Call.Method.Name()
				} else if sc := call.Call.StaticCallee(); sc != nil {
					name = sc.Name()
				}
				if name == "Out" || name == "In" {
					isEdge = true
				}
			}
		}
		if isEdge && (best == nil || len(l.Body) > len(best.Body)) {
			best = l
		}
	}
	return best
}

func invEdgeLoops(c *core.Ctx, r *core.Report) {
	for _, pf := range [][2]string{{"analysis/taint", "Visitor.Visit"}, {"analysis/backtrace", "Visitor.visit"}} {
		fn := c.Func(pf[0], pf[1])
		if fn == nil {
			continue
		}
		for _, ii := range core.InlinedInstrs(c, fn, 1, func(ins ssa.Instruction) bool {
			call, ok := ins.(*ssa.Call)
			if !ok {
				return false
			}
			sc := call.Call.StaticCallee()
			return sc != nil && sc.Name() == "addNext"
		}) {
			l := edgeLoopOf(ii.Ins.Block())
			if l == nil {
				fmt.Printf("%s %s: addNext outside an edge loop\n", pf[0], c.Pos(ii.Ins.Pos()))
				continue
			}
			hdr := map[*ssa.BasicBlock]bool{}
			for _, x := range core.Loops(ii.Ins.Parent()) {
				hdr[x.Header] = true
			}
			for _, cond := range ii.ControlConds() {
				cb := cond.Ins.Block()
				if cb.Parent() != ii.Ins.Parent() || !l.Body[cb] || hdr[cb] {
					continue
				}
				sl := cond.Slice(cond.Ins.(*ssa.If).Cond)
				var ps []string
				for p := range sl.Paths {
					ps = append(ps, p)
				}
				sort.Strings(ps)
				fmt.Printf("%s addNext@%s cond@%s reads %v | %s\n", pf[0], c.Pos(ii.Ins.Pos()), c.Pos(cb.Instrs[0].Pos()), ps, cond.Ins.(*ssa.If).Cond.String())
			}
		}
	}
	r.OK("inv", "done", "", "")
}
