package rules

import (
	"go/ast"
	"go/types"

	"verif/checker/core"
)

// fullScanOf reports whether node contains a range loop over the slice
// variable obj (every element is inspected), directly or inside a repository
// helper that is called with obj as an argument and ranges over that parameter.
func fullScanOf(node ast.Node, obj types.Object, info *types.Info, c *core.Ctx) bool {
	found := false
	ast.Inspect(node, func(n ast.Node) bool {
		switch x := n.(type) {
		case *ast.RangeStmt:
			if id, ok := ast.Unparen(x.X).(*ast.Ident); ok && info.ObjectOf(id) == obj {
				found = true
			}
		case *ast.CallExpr:
			for i, a := range x.Args {
				id, ok := ast.Unparen(a).(*ast.Ident)
				if !ok || info.ObjectOf(id) != obj {
					continue
				}
				fo, ok := core.CalleeObj(x, info).(*types.Func)
				if !ok {
					continue
				}
				if fo.Pkg() != nil && fo.Pkg().Path() == "slices" && (fo.Name() == "ContainsFunc" || fo.Name() == "Contains" || fo.Name() == "IndexFunc" || fo.Name() == "Index") {
					found = true
					continue
				}
				fd := c.DeclOfObj(fo)
				if fd == nil || fd.Body == nil {
					continue
				}
				// i-th parameter object
				k := 0
				var pobj types.Object
				p := c.PkgOfDecl(fd)
				if p == nil {
					continue
				}
				for _, fl := range fd.Type.Params.List {
					for _, nm := range fl.Names {
						if k == i {
							pobj = p.TypesInfo.ObjectOf(nm)
						}
						k++
					}
				}
				if pobj != nil && fullScanOf(fd.Body, pobj, p.TypesInfo, c) {
					found = true
				}
			}
		}
		return !found
	})
	return found
}

// deferBoundRule: in defers.dataflowTransfer the push of a defer onto a stack
// must be guarded by a test that inspected every entry of that stack for the
// same (block, ins): this is what bounds the length of every stack by the
// number of defer statements and makes the fixpoint loop terminate.
func deferBoundRule(c *core.Ctx, r *core.Report, rule string) {
	fd, p := c.Decl("analysis/defers", "dataflowTransfer")
	if fd == nil {
		r.Fail("infra.anchor-unresolved", rule+"|analysis/defers.dataflowTransfer", "", "not found")
		return
	}
	r.Analysed("analysis/defers.dataflowTransfer")
	info := p.TypesInfo
	n := 0
	ast.Inspect(fd.Body, func(nd ast.Node) bool {
		rs, ok := nd.(*ast.RangeStmt)
		if !ok {
			return true
		}
		// loop over the stack set: value variable is a Stack
		val, ok := rs.Value.(*ast.Ident)
		if !ok {
			return true
		}
		stackObj := info.ObjectOf(val)
		if stackObj == nil {
			return true
		}
		if sl, ok := stackObj.Type().Underlying().(*types.Slice); !ok || sl == nil {
			return true
		}
		// pushes inside this loop
		ast.Inspect(rs.Body, func(m ast.Node) bool {
			call, ok := m.(*ast.CallExpr)
			if !ok {
				return true
			}
			o := core.CalleeObj(call, info)
			if o == nil || o.Name() != "stackPushed" || len(call.Args) == 0 {
				return true
			}
			if id, ok := ast.Unparen(call.Args[0]).(*ast.Ident); !ok || info.ObjectOf(id) != stackObj {
				return true
			}
			n++
			ok2 := fullScanOf(rs.Body, stackObj, info, c)
			r.Check(ok2, rule, "analysis/defers.dataflowTransfer|push-guarded-by-full-scan", c.Pos(call.Pos()),
				"a defer is pushed only after every entry of the stack was compared with it: each defer occurs at most once per stack, so stacks and the set of stacks are bounded",
				"a defer is pushed onto a stack without scanning the whole stack for an earlier occurrence: with two defers on one control-flow cycle the stacks grow forever and AnalyzeFunction (hence every summary construction) never terminates")
			return true
		})
		return true
	})
	if n == 0 {
		r.Fail("infra.anchor-unresolved", rule+"|analysis/defers.dataflowTransfer|push", c.Pos(fd.Pos()), "no stackPushed call on a stack of the iterated set found")
	}
}
