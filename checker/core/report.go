package core

import (
	"bufio"
	"encoding/json"
	"fmt"
	"os"
	"path/filepath"
	"sort"
	"strings"
	"time"
)

// Verdicts of an obligation.
const (
	Discharged = "discharged"
	Violation  = "violation"
	Known      = "known-finding"
	Exception  = "exception"
	Info       = "info"
)

// Obligation is one rule instance decided on the current tree.
type Obligation struct {
	Rule    string `json:"rule"`
	Key     string `json:"key"` // rule|func|construct, no line numbers
	Pos     string `json:"pos,omitempty"`
	Verdict string `json:"verdict"`
	Detail  string `json:"detail,omitempty"`
}

// Report collects the obligations of one property check.
type Report struct {
	Property    string
	Tier        string
	Obls        []Obligation
	floors      map[string]int
	floorWhy    map[string]string
	Explanation []string
	DoesNot     []string
	Assumptions []string
	Extra       map[string]any
	Functions   map[string]bool // functions analysed
	seen        map[string]bool
}

// NewReport creates an empty report.
func NewReport(prop, tier string) *Report {
	return &Report{Property: prop, Tier: tier, floors: map[string]int{}, floorWhy: map[string]string{},
		Extra: map[string]any{}, Functions: map[string]bool{}, seen: map[string]bool{}}
}

func (r *Report) add(rule, construct, pos, verdict, detail string) {
	key := rule + "|" + construct
	if r.seen[key+"|"+verdict] && verdict != Violation {
		// identical obligation reached twice (e.g. two tiers of the same rule)
		return
	}
	r.seen[key+"|"+verdict] = true
	r.Obls = append(r.Obls, Obligation{Rule: rule, Key: key, Pos: pos, Verdict: verdict, Detail: detail})
}

// OK records a discharged obligation.
func (r *Report) OK(rule, construct, pos, detail string) { r.add(rule, construct, pos, Discharged, detail) }

// Fail records a violated obligation.
func (r *Report) Fail(rule, construct, pos, detail string) { r.add(rule, construct, pos, Violation, detail) }

// Except records an obligation discharged by a reasoned exception.
func (r *Report) Except(rule, construct, pos, reason string) {
	r.add(rule, construct, pos, Exception, reason)
}

// Note records an informational (non-gating) inventory item.
func (r *Report) Note(rule, construct, pos, detail string) { r.add(rule, construct, pos, Info, detail) }

// Check records OK or Fail depending on cond.
func (r *Report) Check(cond bool, rule, construct, pos, okDetail, failDetail string) bool {
	if cond {
		r.OK(rule, construct, pos, okDetail)
	} else {
		r.Fail(rule, construct, pos, failDetail)
	}
	return cond
}

// Floor demands at least n gating obligations (discharged/exception/violation/known)
// for the rule; fewer means an anchor vanished and the rule would pass vacuously.
func (r *Report) Floor(rule string, n int, why string) {
	r.floors[rule] = n
	r.floorWhy[rule] = why
}

// Explain appends to the coverage explanation.
func (r *Report) Explain(s string) { r.Explanation = append(r.Explanation, s) }

// NotDecided records what the check does not decide.
func (r *Report) NotDecided(s string) { r.DoesNot = append(r.DoesNot, s) }

// Assume records a trusted assumption.
func (r *Report) Assume(s string) { r.Assumptions = append(r.Assumptions, s) }

// Analysed records a function as analysed.
func (r *Report) Analysed(name string) { r.Functions[name] = true }

// KnownFinding is one line of known_findings.jsonl.
type KnownFinding struct {
	Property string `json:"property"`
	Key      string `json:"key"`
	Status   string `json:"status"` // known | fixed
	Commit   string `json:"commit,omitempty"`
	What     string `json:"what"`
}

// LoadKnown reads the committed known-findings file; it is never written here.
func LoadKnown(path string) ([]KnownFinding, error) {
	f, err := os.Open(path)
	if err != nil {
		if os.IsNotExist(err) {
			return nil, nil
		}
		return nil, err
	}
	defer f.Close()
	var res []KnownFinding
	sc := bufio.NewScanner(f)
	sc.Buffer(make([]byte, 1<<20), 1<<20)
	for sc.Scan() {
		line := strings.TrimSpace(sc.Text())
		if line == "" || strings.HasPrefix(line, "#") {
			continue
		}
		var k KnownFinding
		if err := json.Unmarshal([]byte(line), &k); err != nil {
			return nil, fmt.Errorf("%s: %v", path, err)
		}
		res = append(res, k)
	}
	return res, sc.Err()
}

// Finish applies floors and known findings, writes the report and evidence
// files and returns the process exit code.
func (r *Report) Finish(verifDir string, known []KnownFinding, seed int64, start time.Time, pkgsLoaded int) int {
	// floors
	count := map[string]int{}
	for _, o := range r.Obls {
		if o.Verdict != Info {
			count[o.Rule]++
		}
	}
	rules := make([]string, 0, len(r.floors))
	for rule := range r.floors {
		rules = append(rules, rule)
	}
	sort.Strings(rules)
	for _, rule := range rules {
		if count[rule] < r.floors[rule] {
			r.Fail("infra.floor", rule, "", fmt.Sprintf("rule matched %d instances, floor is %d (%s): an anchor disappeared; the rule would pass vacuously",
				count[rule], r.floors[rule], r.floorWhy[rule]))
		}
	}
	// known findings
	knownIdx := map[string]KnownFinding{}
	for _, k := range known {
		if k.Property == r.Property && k.Status == "known" {
			knownIdx[k.Key] = k
		}
	}
	var knownLines []string
	for i := range r.Obls {
		o := &r.Obls[i]
		if o.Verdict == Violation {
			if k, ok := knownIdx[o.Key]; ok {
				o.Verdict = Known
				knownLines = append(knownLines, fmt.Sprintf("KNOWN-FINDING: property=%s %s [%s]", r.Property, k.What, o.Key))
			}
		}
	}
	sort.SliceStable(r.Obls, func(i, j int) bool { return r.Obls[i].Key < r.Obls[j].Key })
	tally := map[string]int{}
	perRule := map[string]map[string]int{}
	for _, o := range r.Obls {
		tally[o.Verdict]++
		if perRule[o.Rule] == nil {
			perRule[o.Rule] = map[string]int{}
		}
		perRule[o.Rule][o.Verdict]++
	}
	gating := tally[Discharged] + tally[Violation] + tally[Known] + tally[Exception]

	// report file
	repDir := filepath.Join(verifDir, "reports")
	os.MkdirAll(repDir, 0o755)
	repPath := filepath.Join(repDir, r.Property+".txt")
	var sb strings.Builder
	fmt.Fprintf(&sb, "property %s tier %s\n", r.Property, r.Tier)
	fmt.Fprintf(&sb, "obligations=%d discharged=%d exceptions=%d known=%d violations=%d info=%d\n",
		gating, tally[Discharged], tally[Exception], tally[Known], tally[Violation], tally[Info])
	for _, v := range []string{Violation, Known, Exception, Discharged, Info} {
		fmt.Fprintf(&sb, "\n== %s ==\n", v)
		for _, o := range r.Obls {
			if o.Verdict == v {
				fmt.Fprintf(&sb, "%s\n    at %s\n    %s\n", o.Key, o.Pos, o.Detail)
			}
		}
	}
	os.WriteFile(repPath, []byte(sb.String()), 0o644)

	// evidence
	samples := []Obligation{}
	perRuleSample := map[string]int{}
	for _, o := range r.Obls {
		lim := 4
		if o.Verdict == Violation || o.Verdict == Known {
			lim = 50
		}
		if perRuleSample[o.Rule+o.Verdict] < lim && len(samples) < 120 {
			samples = append(samples, o)
			perRuleSample[o.Rule+o.Verdict]++
		}
	}
	fns := make([]string, 0, len(r.Functions))
	for f := range r.Functions {
		fns = append(fns, f)
	}
	sort.Strings(fns)
	expl := strings.Join(r.Explanation, " ")
	if len(r.DoesNot) > 0 {
		expl += " DOES NOT DECIDE: " + strings.Join(r.DoesNot, " ")
	}
	cov := map[string]any{
		"explanation":        expl,
		"obligations":        gating,
		"discharged":         tally[Discharged],
		"exceptions":         tally[Exception],
		"known_findings":     tally[Known],
		"violations":         tally[Violation],
		"inventory_items":    tally[Info],
		"per_rule":           perRule,
		"instance_floors":    r.floors,
		"functions_analysed": len(fns),
		"functions":          fns,
		"packages_loaded":    pkgsLoaded,
		"samples":            samples,
		"report_file":        repPath,
		"checker_cmd":        fmt.Sprintf("/verif/bin/argotcheck -property %s -tier %s", r.Property, r.Tier),
		"trusted_base":       []string{"go/packages, go/types, go/ssa, callgraph/cha+vta of golang.org/x/tools v0.29.0", "Go toolchain std export data", "checker-side tables of SSA/builtin semantics"},
	}
	for k, v := range r.Extra {
		cov[k] = v
	}
	ev := map[string]any{
		"property_id": r.Property,
		"tier":        r.Tier,
		"seed":        seed,
		"level":       "other",
		"coverage":    cov,
		"assumptions": append([]string{"static analysis of Argot's own source; decides the structural clauses named in coverage.explanation only"}, r.Assumptions...),
		"wall_s":      time.Since(start).Seconds(),
		"violations":  tally[Violation],
	}
	evDir := filepath.Join(verifDir, "evidence")
	os.MkdirAll(evDir, 0o755)
	b, _ := json.MarshalIndent(ev, "", " ")
	os.WriteFile(filepath.Join(evDir, r.Property+".json"), append(b, '\n'), 0o644)

	sort.Strings(knownLines)
	for _, l := range knownLines {
		fmt.Println(l)
	}
	fmt.Printf("%s %s: obligations=%d discharged=%d exceptions=%d known=%d violations=%d (info=%d) report=%s\n",
		r.Property, r.Tier, gating, tally[Discharged], tally[Exception], tally[Known], tally[Violation], tally[Info], repPath)
	if tally[Violation] > 0 {
		for _, o := range r.Obls {
			if o.Verdict == Violation {
				fmt.Printf("  violation %s at %s: %s\n", o.Key, o.Pos, o.Detail)
			}
		}
		fmt.Printf("VIOLATION property=%s replay=%s\n", r.Property, repPath)
		return 1
	}
	return 0
}
