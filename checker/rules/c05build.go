package rules

import (
	"fmt"
	"strings"

	"golang.org/x/tools/go/ssa"

	"verif/checker/core"
)

// c05build (R05.build): the taint traversal builds a missing summary whenever it
// needs one: with a pkg-filter (or functions skipped by the eager pass) a
// summary can be missing in eager mode too, so a build of a missing summary in
// taint.Visitor and its helpers must not be conditional on the
// summarize-on-demand option alone. (The only sanctioned use of the option is
// together with unsafe-ignore-non-summarized, the documented unsound switch.)
// Decided on SSA with helpers inlined: for every call that runs the
// intra-procedural analysis on demand, the conditions it is control dependent
// on - in its function and at the call sites leading to it - are sliced; one
// that reads Config.SummarizeOnDemand without UnsafeIgnoreNonSummarized is a
// violation.
func c05build(c *core.Ctx, r *core.Report) {
	r.Explain("R05.build: every call that builds a missing summary in the taint traversal (helpers inlined) is control dependent - in its function and at the call sites leading to it - on no condition that reads Config.SummarizeOnDemand without UnsafeIgnoreNonSummarized.")
	root := c.Func("analysis/taint", "Visitor.Visit")
	if root == nil {
		r.Fail("infra.anchor-unresolved", "R05.build|analysis/taint.Visitor.Visit", "", "not found")
		return
	}
	r.Analysed("analysis/taint.Visitor.Visit")
	g := c.RepoGraph()
	builds := func(fn *ssa.Function) bool {
		if fn == nil {
			return false
		}
		if fn.Name() == "RunIntraProcedural" || fn.Name() == "BuildSummary" {
			return true
		}
		if c.FuncPkgRel(fn) != "analysis/taint" {
			return false
		}
		for f := range g.Cone(false, fn) {
			if f.Name() == "RunIntraProcedural" || f.Name() == "BuildSummary" {
				return true
			}
		}
		return false
	}
	n := 0
	seen := map[string]int{}
	for _, ii := range core.InlinedInstrs(c, root, c.Depth(2), func(ins ssa.Instruction) bool {
		call, ok := ins.(*ssa.Call)
		if !ok {
			return false
		}
		sc := call.Call.StaticCallee()
		// the outermost build calls only (what they call is their business)
		if sc == nil || !builds(sc) {
			return false
		}
		if sc.Name() == "onDemandIntraProcedural" {
			return true
		}
		return c.FuncPkgRel(sc) != "analysis/taint" && call.Parent().Name() != "onDemandIntraProcedural"
	}) {
		n++
		call := ii.Ins.(*ssa.Call)
		var bad []string
		for _, cond := range ii.ControlConds() {
			sl := cond.Slice(cond.Ins.(*ssa.If).Cond)
			if sl.HasSuffix("SummarizeOnDemand") && !sl.HasSuffix("UnsafeIgnoreNonSummarized") {
				pos := cond.Ins.(*ssa.If).Cond.Pos()
				if !pos.IsValid() {
					for _, x := range cond.Ins.Block().Instrs {
						if x.Pos().IsValid() {
							pos = x.Pos()
						}
					}
				}
				bad = append(bad, c.Pos(pos))
			}
		}
		key := fmt.Sprintf("%s|build", c.FuncName(call.Parent()))
		seen[key]++
		key = fmt.Sprintf("%s#%d", key, seen[key])
		r.Check(len(bad) == 0, "R05.build", key, c.Pos(call.Pos()), "the build of a missing summary does not depend on the summarize-on-demand option alone",
			"a missing summary is only built when summarize-on-demand is set (branch at "+strings.Join(bad, ", ")+"): in eager mode with a pkg-filter the summary of a filtered-out caller stays unbuilt, the traversal cannot return into it and the (source, sink) pairs differ between configurations")
	}
	if n < 4 {
		r.Fail("infra.floor", "R05.build", "", fmt.Sprintf("only %d on-demand build call(s) found in the taint traversal", n))
	}
}
