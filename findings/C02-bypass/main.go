package main

import (
	"fmt"
	"os"
)

func source1() string     { return os.Args[0] }
func sink1(s string)       { fmt.Println(s) }
func validate(s string) bool { return len(s) < 3 }

func onePathValidated(lenient bool) {
	x := source1()
	if lenient {
		fmt.Println("lenient mode: no validation")
	} else {
		if !validate(x) {
			return
		}
	}
	// with lenient == true the data reaches the sink without having been validated
	sink1(x)
}

func main() {
	onePathValidated(len(os.Args) < 5)
}
