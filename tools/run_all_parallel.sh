#!/bin/bash
# Parallel regression: every stored seed and mutant against its property's check, every neutral patch against ALL checks.
# usage: run_all_parallel.sh [jobs]   (default 4)
j=${1:-4}
{
  for d in /verif/seeded/*/; do id=$(basename $d); echo "/verif/tools/one_seed.sh $d/patch.diff $id ${id%%-*}"; done
  for m in /verif/tools/mutants/*.diff; do echo "/verif/tools/one_seed.sh $m mutant-$(basename $m .diff) $(basename $m | cut -d- -f1)"; done
  for f in /verif/neutral/*/patch-*.diff; do echo "/verif/tools/one_neutral.sh $f"; done
} | xargs -P $j -I{} bash -c "{}"
