package rules

import (
	"fmt"
	"go/ast"
	"go/types"
	"strings"

	"verif/checker/core"
)

func init() { Registry["C16"] = c16 }

func isNamedIn(t types.Type, pkgRel, name string) bool {
	n, ok := types.Unalias(t).(*types.Named)
	return ok && n.Obj().Name() == name && n.Obj().Pkg() != nil && n.Obj().Pkg().Path() == core.Module+"/"+pkgRel
}

func c16(c *core.Ctx, r *core.Report) {
	r.Explain("R16.bound: a defer is pushed only after the whole stack was scanned for an earlier occurrence (bounded stacks => termination, and 'repeated' <=> a defer on a cycle). R16.immutable: stacks are values - the only append producing a Stack uses a full-slice expression (forces a copy) and no element of a Stack is ever assigned. R16.sorted: the Defer arm sorts (by stackCompare) and de-duplicates before returning, RunDefers returns the singleton of the empty stack, other instructions return their input: every StackSet reaching stackSetUnion is sorted, which its merge and change detection rely on. R16.change: in stackSetUnion every insertion of an element of b sets sameAsA=false. R16.index: producer and consumer use the same index space (BasicBlock.Index and the range index over that block's Instrs; getInstr indexes Parent.Blocks[b].Instrs[i]; the consumer asserts *ssa.Defer). R16.record: the stack set at a RunDefers is recorded before the transfer function resets it. R16.unbounded: the unbounded verdict is the disjunction of all 'repeated' flags.")
	r.NotDecided("exactness of the computed stack sets over all control-flow graphs (algorithmic claim).")
	deferBoundRule(c, r, "R16.bound")
	p := c.Pkg("analysis/defers")
	if p == nil {
		r.Fail("infra.anchor-unresolved", "R16|analysis/defers", "", "package not found")
		return
	}
	info := p.TypesInfo
	// ---- R16.immutable
	nApp := 0
	for _, f := range p.Syntax {
		if strings.HasSuffix(c.Fset.Position(f.Pos()).Filename, "_test.go") {
			continue
		}
		ast.Inspect(f, func(n ast.Node) bool {
			switch x := n.(type) {
			case *ast.CallExpr:
				id, ok := x.Fun.(*ast.Ident)
				if !ok || id.Name != "append" || len(x.Args) == 0 {
					return true
				}
				rt := info.TypeOf(x)
				if !isNamedIn(rt, "analysis/defers", "Stack") && !isNamedIn(info.TypeOf(x.Args[0]), "analysis/defers", "Stack") {
					return true
				}
				nApp++
				se, ok := ast.Unparen(x.Args[0]).(*ast.SliceExpr)
				r.Check(ok && se.Slice3 && se.Max != nil, "R16.immutable", fmt.Sprintf("analysis/defers|append-to-Stack#%d", nApp), c.Pos(x.Pos()),
					"append to a Stack goes through a full-slice expression (always copies)", "append to a Stack may write into the shared backing array of another stack of the set: stacks of different paths get corrupted")
			case *ast.AssignStmt:
				for _, lhs := range x.Lhs {
					if ix, ok := lhs.(*ast.IndexExpr); ok && isNamedIn(info.TypeOf(ix.X), "analysis/defers", "Stack") {
						r.Fail("R16.immutable", "analysis/defers|element-store", c.Pos(x.Pos()), "an element of a Stack is assigned in place: stacks are shared between sets and must be immutable")
					}
				}
			}
			return true
		})
	}
	r.Floor("R16.immutable", 1, "stackPushed")

	// ---- R16.sorted on dataflowTransfer (SSA for the Defer arm; the RunDefers reset stays a syntactic check)
	c16sortedSSA(c, r)
	if fd, _ := c.Decl("analysis/defers", "dataflowTransfer"); fd != nil {
		for _, ts := range core.TypeSwitchesIn(fd.Body, info, nil) {
			for _, cl := range ts.Clauses {
				for _, t := range cl.Types {
					if t == nil || core.ShortType(t) != "*ssa.RunDefers" {
						continue
					}
					// returns StackSet{Stack{}}
					single := exprAny(cl.Clause, func(n ast.Node) bool {
						lit, ok := n.(*ast.CompositeLit)
						if !ok || !isNamedIn(info.TypeOf(lit), "analysis/defers", "StackSet") || len(lit.Elts) != 1 {
							return false
						}
						inner, ok := lit.Elts[0].(*ast.CompositeLit)
						return ok && len(inner.Elts) == 0
					})
					r.Check(single, "R16.sorted", "analysis/defers.dataflowTransfer|RunDefers-arm-resets", c.Pos(cl.Clause.Pos()), "RunDefers resets to the singleton of the empty stack", "RunDefers does not reset the state to {[]}: defers already run are reported again at later exits")
				}
			}
		}
	}
	r.Floor("R16.sorted", 3, "sort, dedup, reset")

	// ---- R16.change, R16.index (producer), R16.record, R16.unbounded: SSA
	c16changeSSA(c, r)
	c16loopSSA(c, r)
	// consumer
	if fd, pp := c.Decl("analysis/dataflow", "IntraAnalysisState.getInstr"); fd != nil {
		params := fd.Type.Params.List
		var names []string
		for _, fl := range params {
			for _, n := range fl.Names {
				names = append(names, n.Name)
			}
		}
		okB, okI := false, false
		ast.Inspect(fd.Body, func(n ast.Node) bool {
			ix, ok := n.(*ast.IndexExpr)
			if !ok {
				return true
			}
			id, _ := ast.Unparen(ix.Index).(*ast.Ident)
			sp := selPath(ix.X)
			if id != nil && len(names) == 2 && len(sp) > 0 {
				if sp[len(sp)-1] == "Blocks" && id.Name == names[0] {
					okB = true
				}
				if sp[len(sp)-1] == "Instrs" && id.Name == names[1] {
					okI = true
				}
			}
			return true
		})
		_ = pp
		r.Check(okB && okI, "R16.index", "analysis/dataflow.IntraAnalysisState.getInstr|consumer", c.Pos(fd.Pos()), "consumer indexes Parent.Blocks[block].Instrs[ins] with the same index space", "consumer does not index Blocks by the first and Instrs by the second component: deferred calls are simulated for the wrong instructions")
	} else {
		r.Fail("infra.anchor-unresolved", "R16.index|getInstr", "", "not found")
	}
	if fd, pp := c.Decl("analysis/dataflow", "IntraAnalysisState.doDefersStackSimulation"); fd != nil {
		asserts := exprAny(fd.Body, func(n ast.Node) bool {
			ta, ok := n.(*ast.TypeAssertExpr)
			return ok && ta.Type != nil && core.SSATypeName(pp.TypesInfo.TypeOf(ta.Type)) == "Defer"
		})
		r.Check(asserts, "R16.index", "analysis/dataflow.IntraAnalysisState.doDefersStackSimulation|asserts-defer", c.Pos(fd.Pos()), "consumer checks that every stack entry resolves to a *ssa.Defer", "consumer no longer checks that stack entries are defers")
	}
	r.Floor("R16.index", 3, "producer, consumer, assertion")
}
