#!/bin/bash
# usage: keep_seed.sh <id> <dir-with patch.diff demo/ meta.json> "<what I ran to confirm>" "<caught by>"
set -eu
id=$1; src=$2; ran=$3; caught=$4
dst=/verif/seeded/$id
n=1; while [ -e "$dst" ]; do n=$((n+1)); dst=/verif/seeded/$id-$n; done
mkdir -p $dst
cp $src/patch.diff $dst/patch.diff
cp -r $src/demo $dst/demo 2>/dev/null || true
python3 - "$src/meta.json" "$dst/meta.json" "$ran" "$caught" <<'PY'
import json,sys
src,dst,ran,caught=sys.argv[1:]
try: m=json.load(open(src))
except Exception: m={}
m["confirmed_by_me"]=ran
m["caught_by"]=caught
json.dump(m,open(dst,"w"),indent=1)
PY
echo kept $dst
