package core

import (
	"go/ast"
	"go/types"
	"sort"
	"strings"

	"golang.org/x/tools/go/packages"
)

// Implementers returns, sorted by type string, the concrete forms (T or *T)
// of every named non-interface type in the loaded program that implements
// iface. Only one form is returned per type: T if T implements, else *T.
func (c *Ctx) Implementers(iface *types.Interface) []types.Type {
	var res []types.Type
	for _, p := range c.All {
		if p.Types == nil {
			continue
		}
		scope := p.Types.Scope()
		for _, name := range scope.Names() {
			tn, ok := scope.Lookup(name).(*types.TypeName)
			if !ok || tn.IsAlias() {
				continue
			}
			named, ok := tn.Type().(*types.Named)
			if !ok || named.TypeParams().Len() > 0 {
				continue
			}
			if types.IsInterface(named) {
				continue
			}
			if types.Implements(named, iface) {
				res = append(res, named)
			} else if ptr := types.NewPointer(named); types.Implements(ptr, iface) {
				res = append(res, ptr)
			}
		}
	}
	sort.Slice(res, func(i, j int) bool { return res[i].String() < res[j].String() })
	return res
}

// NamedIface looks up an interface type by package path and name in the
// loaded program.
func (c *Ctx) NamedIface(pkgPath, name string) (*types.Named, *types.Interface) {
	p := c.All[pkgPath]
	if p == nil || p.Types == nil {
		return nil, nil
	}
	tn, _ := p.Types.Scope().Lookup(name).(*types.TypeName)
	if tn == nil {
		return nil, nil
	}
	named, _ := tn.Type().(*types.Named)
	if named == nil {
		return nil, nil
	}
	iface, _ := named.Underlying().(*types.Interface)
	return named, iface
}

// SwitchClause is one clause of a type switch.
type SwitchClause struct {
	Types   []types.Type // nil entry for `case nil`
	Default bool
	Clause  *ast.CaseClause
}

// TypeSwitch is a type switch statement with resolved case types.
type TypeSwitch struct {
	Stmt    *ast.TypeSwitchStmt
	TagType types.Type
	Clauses []SwitchClause
}

// DefaultClause returns the default clause or nil.
func (ts *TypeSwitch) DefaultClause() *ast.CaseClause {
	for _, cl := range ts.Clauses {
		if cl.Default {
			return cl.Clause
		}
	}
	return nil
}

// ClauseFor returns the first clause that would be selected for a value of
// dynamic type t (ignoring `case nil`).
func (ts *TypeSwitch) ClauseFor(t types.Type) *SwitchClause {
	for i := range ts.Clauses {
		cl := &ts.Clauses[i]
		for _, ct := range cl.Types {
			if ct == nil {
				continue
			}
			if types.Identical(ct, t) {
				return cl
			}
			if it, ok := ct.Underlying().(*types.Interface); ok && types.Implements(t, it) {
				return cl
			}
		}
	}
	return nil
}

// TypeSwitchesIn finds the type switches in node whose tag has exactly the
// named type tag (compared by identity).
func TypeSwitchesIn(node ast.Node, info *types.Info, tag types.Type) []*TypeSwitch {
	var res []*TypeSwitch
	ast.Inspect(node, func(n ast.Node) bool {
		sw, ok := n.(*ast.TypeSwitchStmt)
		if !ok {
			return true
		}
		var x ast.Expr
		switch a := sw.Assign.(type) {
		case *ast.ExprStmt:
			if ta, ok := a.X.(*ast.TypeAssertExpr); ok {
				x = ta.X
			}
		case *ast.AssignStmt:
			if len(a.Rhs) == 1 {
				if ta, ok := a.Rhs[0].(*ast.TypeAssertExpr); ok {
					x = ta.X
				}
			}
		}
		if x == nil {
			return true
		}
		tv, ok := info.Types[x]
		if !ok {
			return true
		}
		if tag != nil && !types.Identical(tv.Type, tag) {
			return true
		}
		ts := &TypeSwitch{Stmt: sw, TagType: tv.Type}
		for _, st := range sw.Body.List {
			cc := st.(*ast.CaseClause)
			cl := SwitchClause{Clause: cc, Default: cc.List == nil}
			for _, e := range cc.List {
				if etv, ok := info.Types[e]; ok && etv.IsType() {
					cl.Types = append(cl.Types, etv.Type)
				} else {
					cl.Types = append(cl.Types, nil)
				}
			}
			ts.Clauses = append(ts.Clauses, cl)
		}
		res = append(res, ts)
		return true
	})
	return res
}

// ShortType renders a type with package paths shortened to package names.
func ShortType(t types.Type) string {
	return types.TypeString(t, func(p *types.Package) string { return p.Name() })
}

// BodyKind classifies a clause body: "empty", "panic" (ends in a panic call),
// "return-only" (a single bare return / return of constants), or "code".
func BodyKind(body []ast.Stmt, info *types.Info) string {
	if len(body) == 0 {
		return "empty"
	}
	last := body[len(body)-1]
	if es, ok := last.(*ast.ExprStmt); ok {
		if call, ok := es.X.(*ast.CallExpr); ok {
			if id, ok := call.Fun.(*ast.Ident); ok && id.Name == "panic" {
				if _, isB := info.Uses[id].(*types.Builtin); isB {
					return "panic"
				}
			}
		}
	}
	if len(body) == 1 {
		if rs, ok := body[0].(*ast.ReturnStmt); ok {
			allConst := true
			for _, r := range rs.Results {
				tv := info.Types[r]
				if tv.Value == nil && !tv.IsNil() {
					allConst = false
				}
			}
			if allConst {
				return "return-only"
			}
		}
	}
	return "code"
}

// CallsIn returns the static callee objects of every call in the statements.
func CallsIn(stmts []ast.Stmt, info *types.Info) []types.Object {
	var res []types.Object
	for _, s := range stmts {
		ast.Inspect(s, func(n ast.Node) bool {
			call, ok := n.(*ast.CallExpr)
			if !ok {
				return true
			}
			if o := CalleeObj(call, info); o != nil {
				res = append(res, o)
			}
			return true
		})
	}
	return res
}

// CalleeObj resolves the callee of a call expression to an object (function,
// method, builtin or variable), or nil for conversions and complex expressions.
func CalleeObj(call *ast.CallExpr, info *types.Info) types.Object {
	fun := ast.Unparen(call.Fun)
	switch f := fun.(type) {
	case *ast.Ident:
		return info.Uses[f]
	case *ast.SelectorExpr:
		if sel, ok := info.Selections[f]; ok {
			return sel.Obj()
		}
		return info.Uses[f.Sel]
	case *ast.IndexExpr:
		if id, ok := f.X.(*ast.Ident); ok {
			return info.Uses[id]
		}
		if se, ok := f.X.(*ast.SelectorExpr); ok {
			return info.Uses[se.Sel]
		}
	case *ast.IndexListExpr:
		if id, ok := f.X.(*ast.Ident); ok {
			return info.Uses[id]
		}
		if se, ok := f.X.(*ast.SelectorExpr); ok {
			return info.Uses[se.Sel]
		}
	}
	return nil
}

// PkgOfFile is a helper returning the package owning a FuncDecl.
func (c *Ctx) PkgOfDecl(fd *ast.FuncDecl) *packages.Package {
	for f, p := range c.fileOf {
		if f.Pos() <= fd.Pos() && fd.End() <= f.End() {
			return p
		}
	}
	return nil
}

// ObjName renders "pkgrel.Name" or "pkgrel.T.m" for an object.
func ObjName(o types.Object) string {
	if o == nil {
		return "<nil>"
	}
	if f, ok := o.(*types.Func); ok {
		s := f.FullName()
		return strings.ReplaceAll(s, Module+"/", "")
	}
	if o.Pkg() != nil {
		return strings.TrimPrefix(strings.TrimPrefix(o.Pkg().Path(), Module), "/") + "." + o.Name()
	}
	return o.Name()
}

// Dispatch is a resolved type-switch dispatcher over a closed interface.
type Dispatch struct {
	Func    string // "pkgrel.Name"
	Decl    *ast.FuncDecl
	Pkg     *packages.Package
	Switch  *TypeSwitch
	Iface   *types.Named
	Impls   []types.Type
	Default string // "none" or BodyKind of the default clause
}

// FindDispatch locates, inside function pkgrel.name, the type switch whose
// tag has the named interface type ifacePkg.ifaceName and which has the most
// clauses. Returns nil if there is none.
func (c *Ctx) FindDispatch(pkgRel, name, ifacePkg, ifaceName string) *Dispatch {
	fd, p := c.Decl(pkgRel, name)
	if fd == nil || fd.Body == nil {
		return nil
	}
	named, iface := c.NamedIface(ifacePkg, ifaceName)
	if named == nil || iface == nil {
		return nil
	}
	var best *TypeSwitch
	for _, ts := range TypeSwitchesIn(fd.Body, p.TypesInfo, named) {
		if best == nil || len(ts.Clauses) > len(best.Clauses) {
			best = ts
		}
	}
	if best == nil {
		return nil
	}
	d := &Dispatch{Func: pkgRel + "." + name, Decl: fd, Pkg: p, Switch: best, Iface: named, Impls: c.Implementers(iface), Default: "none"}
	if dc := best.DefaultClause(); dc != nil {
		d.Default = BodyKind(dc.Body, p.TypesInfo)
	}
	return d
}

// SSAPath is the import path of the ssa package Argot is built against.
const SSAPath = "golang.org/x/tools/go/ssa"
