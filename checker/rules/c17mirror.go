package rules

import (
	"fmt"
	"go/types"
	"strings"

	"golang.org/x/tools/go/ssa"

	"verif/checker/core"
)

// c17mirror (R17.mirror): the backward view of an edge is the edge itself:
// every store into an `in` map performed by addInEdge (helpers inlined) stores
// the EdgeInfo it was given - the one the caller also stored in the `out` map -
// not a value computed from it and from what was there before. A merged /
// rewritten in-edge (for instance one whose tuple index is replaced by "not
// used" when two out-edges with different indexes exist) no longer corresponds
// to any out-edge: the backward traversal selects callee results by that index
// and stops where the forward traversal goes on.
func c17mirror(c *core.Ctx, r *core.Report) {
	r.Explain("R17.mirror: in dataflow.addInEdge (helpers inlined) every value stored into an `in` map is the EdgeInfo parameter itself (identity through loads/copies), not a value computed from it and the previous entry.")
	fn := c.Func("analysis/dataflow", "addInEdge")
	if fn == nil || len(fn.Params) != 3 {
		r.Fail("infra.anchor-unresolved", "R17.mirror|analysis/dataflow.addInEdge", "", "not found")
		return
	}
	r.Analysed("analysis/dataflow.addInEdge")
	pathParam := fn.Params[2]
	n, bad := 0, 0
	var where string
	for _, ii := range core.InlinedInstrs(c, fn, c.Depth(2), func(ins ssa.Instruction) bool {
		mu, ok := ins.(*ssa.MapUpdate)
		if !ok {
			return false
		}
		m, ok := types.Unalias(mu.Map.Type()).Underlying().(*types.Map)
		return ok && strings.HasSuffix(m.Elem().String(), "dataflow.EdgeInfo")
	}) {
		mu := ii.Ins.(*ssa.MapUpdate)
		n++
		p, root := ii.PathAndRoot(mu.Value)
		if !(p == "" && root == ssa.Value(pathParam)) {
			bad++
			where = c.Pos(mu.Pos())
		}
	}
	if n == 0 {
		r.Fail("R17.mirror", "analysis/dataflow.addInEdge|in-stores", c.Pos(fn.Pos()), "addInEdge stores nothing into an `in` map")
		return
	}
	pos := c.Pos(fn.Pos())
	if where != "" {
		pos = where
	}
	r.Check(bad == 0, "R17.mirror", "analysis/dataflow.addInEdge|stores-the-mirrored-edge", pos,
		fmt.Sprintf("all %d stores into `in` maps store the edge info they were given", n),
		fmt.Sprintf("%d of %d stores into an `in` map store a value other than the edge info passed by the caller (a merge with the previous entry, a rewritten tuple index): the in-edge no longer mirrors any out-edge, the backward traversal (backtrace) cannot select the callee result by its index and loses origins the forward traversal finds", bad, n))
}
