package rules

import (
	"fmt"
	"sort"
	"strings"

	"golang.org/x/tools/go/ssa"

	"verif/checker/core"
)

// ensureRule (R01.ensure / R05.ensure): the edges of a summary graph exist only
// once the summary is Constructed; with summarize-on-demand (or a pkg-filter) a
// summary may not have been built when the traversal first touches one of its
// nodes. Reading the Out() edges of a node of a summary that was never built
// yields nothing and the flow stops there - silently, and only in the lazy
// configuration. Typestate rule, decided on the SSA of the traversal with its
// helpers inlined: every read of N.Out() in the visitor is dominated by a test
// of N.Graph().Constructed (same node expression N: conversions and type-switch
// bindings are transparent, helper parameters are resolved to their arguments)
// under which a summary build for N.Graph() is run.
func ensureRule(c *core.Ctx, r *core.Report, rule, pkgRel, fnName string, floor int, edgeMethods ...string) {
	if len(edgeMethods) == 0 {
		edgeMethods = []string{"Out"}
	}
	r.Explain(rule + ": in " + pkgRel + "." + fnName + " (helpers inlined) every read of the edges of a dataflow graph node N (N." + strings.Join(edgeMethods, "(), N.") + "()) is dominated by a test of N.Graph().Constructed on the same node expression, and a build of N.Graph() (a call reaching dataflow.RunIntraProcedural / BuildSummary) is dominated by that test.")
	root := c.Func(pkgRel, fnName)
	if root == nil {
		r.Fail("infra.anchor-unresolved", rule+"|"+pkgRel+"."+fnName, "", "not found")
		return
	}
	r.Analysed(pkgRel + "." + fnName)
	g := c.RepoGraph()
	builds := func(fn *ssa.Function) bool {
		if fn == nil {
			return false
		}
		if fn.Name() == "RunIntraProcedural" || fn.Name() == "BuildSummary" {
			return true
		}
		if c.FuncPkgRel(fn) != pkgRel {
			return false
		}
		for f := range g.Cone(false, fn) {
			if f.Name() == "RunIntraProcedural" || f.Name() == "BuildSummary" {
				return true
			}
		}
		return false
	}
	// the receiver of a call of method `name` on a dataflow graph node / summary
	recvOf := func(v ssa.Value, name string) ssa.Value {
		call, ok := v.(*ssa.Call)
		if !ok {
			return nil
		}
		if call.Call.IsInvoke() {
			if call.Call.Method.Name() == name && call.Call.Method.Pkg() != nil && strings.HasSuffix(call.Call.Method.Pkg().Path(), "analysis/dataflow") {
				return call.Call.Value
			}
			return nil
		}
		sc := call.Call.StaticCallee()
		if sc != nil && sc.Name() == name && sc.Signature.Recv() != nil && c.FuncPkgRel(sc) == "analysis/dataflow" && len(call.Call.Args) > 0 {
			return call.Call.Args[0]
		}
		return nil
	}
	type site struct {
		ii    core.InlinedInstr
		canon string
	}
	var uses, tests, bld []site
	for _, ii := range core.InlinedInstrs(c, root, c.Depth(2), func(ins ssa.Instruction) bool {
		switch ins.(type) {
		case *ssa.Call, *ssa.FieldAddr:
			return true
		}
		return false
	}) {
		if c.FuncPkgRel(ii.Ins.Parent()) != pkgRel {
			continue
		}
		switch x := ii.Ins.(type) {
		case *ssa.FieldAddr:
			if _, f := core.FieldOf(x); f == nil || f.Name() != "Constructed" {
				continue
			}
			if n := recvOf(x.X, "Graph"); n != nil {
				tests = append(tests, site{ii, ii.Canon(n)})
			}
		case *ssa.Call:
			isUse := false
			for _, m := range edgeMethods {
				if n := recvOf(x, m); n != nil {
					uses = append(uses, site{ii, ii.Canon(n)})
					isUse = true
				}
			}
			if isUse {
				continue
			}
			if sc := x.Call.StaticCallee(); sc != nil && builds(sc) {
				for _, a := range x.Call.Args {
					if n := recvOf(a, "Graph"); n != nil {
						bld = append(bld, site{ii, ii.Canon(n)})
					}
				}
			}
		}
	}
	if len(uses) < floor || len(tests) == 0 || len(bld) == 0 {
		r.Fail("infra.anchor-unresolved", rule+"|"+pkgRel+"."+fnName+"|sites", c.Pos(root.Pos()), fmt.Sprintf("expected at least %d reads of Out() and some Constructed tests / builds, found %d / %d / %d", floor, len(uses), len(tests), len(bld)))
		return
	}
	var bad []string
	for _, u := range uses {
		ok := false
		for _, t := range tests {
			if t.canon != u.canon || !t.ii.Dominates(u.ii) {
				continue
			}
			for _, b := range bld {
				if b.canon == u.canon && t.ii.Dominates(b.ii) {
					ok = true
				}
			}
		}
		if !ok {
			bad = append(bad, c.Pos(u.ii.Ins.Pos()))
		}
	}
	sort.Strings(bad)
	r.Check(len(bad) == 0, rule, pkgRel+"."+fnName+"|Out()-reads-ensure-summary", c.Pos(root.Pos()),
		fmt.Sprintf("all %d reads of a node's edges are dominated by a Constructed test of that node's summary with a build under it (%d tests, %d builds)", len(uses), len(tests), len(bld)),
		fmt.Sprintf("the edges of a node are read at %s without first testing that node's Graph().Constructed and building the summary: when the summary has not been built yet (summarize-on-demand, pkg-filter) the node has no edges, nothing is enqueued and the flow is silently dropped - in the lazy configuration only", strings.Join(bad, ", ")))
}
