package rules

import (
	"go/types"
	"sort"
	"strings"

	"golang.org/x/tools/go/ssa"

	"verif/checker/core"
)

// c07lasso (R07.lassoscan): the traversals terminate on recursive programs
// because a call / closure stack whose last frame repeats an earlier one is
// refused (lasso). The scan for the repeated frame must look at the WHOLE
// stack: a cycle of mutually recursive functions can be longer than any fixed
// window. In (*NodeTree).GetLassoHandle no exit of the scan loop depends on an
// integer carried around the loop (a counter): the loop ends at the root (nil
// test) or at the match.
func c07lasso(c *core.Ctx, r *core.Report) {
	r.Explain("R07.lassoscan: in dataflow.(*NodeTree).GetLassoHandle (every instantiation) no condition that leaves the loop over the ancestors reads an integer carried around the loop: the scan covers the whole stack.")
	n := 0
	var bad []string
	for _, fn := range c.RepoFunctions() {
		if c.FuncPkgRel(fn) != "analysis/dataflow" || fn.Blocks == nil {
			continue
		}
		if !(fn.Name() == "GetLassoHandle" || strings.HasPrefix(fn.Name(), "GetLassoHandle[")) {
			continue
		}
		for _, l := range core.Loops(fn) {
			n++
			counters := map[ssa.Value]bool{}
			for _, ins := range l.Header.Instrs {
				phi, ok := ins.(*ssa.Phi)
				if !ok {
					break
				}
				if b, ok := types.Unalias(phi.Type()).Underlying().(*types.Basic); ok && b.Info()&types.IsInteger != 0 {
					counters[phi] = true
				}
			}
			for b := range l.Body {
				if len(b.Succs) != 2 || (l.Body[b.Succs[0]] && l.Body[b.Succs[1]]) {
					continue
				}
				iff, ok := b.Instrs[len(b.Instrs)-1].(*ssa.If)
				if !ok {
					continue
				}
				if bo, ok := iff.Cond.(*ssa.BinOp); ok {
					for _, o := range []ssa.Value{bo.X, bo.Y} {
						if counters[o] {
							bad = append(bad, c.Pos(bo.Pos()))
						}
						if in, ok := o.(*ssa.BinOp); ok && (counters[in.X] || counters[in.Y]) {
							bad = append(bad, c.Pos(bo.Pos()))
						}
					}
				}
			}
		}
	}
	if n == 0 {
		r.Fail("infra.anchor-unresolved", "R07.lassoscan|GetLassoHandle", "", "no scan loop found in dataflow.(*NodeTree).GetLassoHandle")
		return
	}
	sort.Strings(bad)
	bad = dedupStrings(bad)
	r.Check(len(bad) == 0, "R07.lassoscan", "analysis/dataflow.NodeTree.GetLassoHandle|whole-stack-scanned", "", "the lasso scan ends only at the root or at a match",
		"the lasso scan stops after a bounded number of frames ("+strings.Join(bad, ", ")+"): a recursion cycle longer than the window is never recognised, the stacks grow without bound and the traversal does not terminate (or only at the depth limit, if one is set)")
}
