package rules

import (
	"fmt"
	"go/ast"
	"go/token"
	"go/types"
	"sort"
	"strings"

	"golang.org/x/tools/go/ssa"

	"verif/checker/core"
)

func init() { Registry["C05"] = c05 }

// addressOperands: operand positions that can hold an address-typed value
// such as a *ssa.Global (checker-side table from the go/ssa semantics).
var addressOperands = map[string]bool{
	"UnOp.X": true, "BinOp.X": true, "BinOp.Y": true, "Store.Val": true, "Store.Addr": true, "FieldAddr.X": true, "IndexAddr.X": true,
	"Slice.X": true, "Phi.Edges": true, "MakeInterface.X": true, "ChangeType.X": true, "Convert.X": true, "MapUpdate.Key": true,
	"MapUpdate.Value": true, "Send.X": true, "Call.Args": true, "States.Send": true, "Return.Results": true, "MakeClosure.Bindings": true,
}

// operandOfExpr maps an expression such as `x.X`, `binop.Y`, `selectState.Chan`
// or a range variable over `phi.Edges` to "Kind.Field".
func operandOfExpr(e ast.Expr, info *types.Info, rangeVars map[types.Object]string) string {
	switch x := ast.Unparen(e).(type) {
	case *ast.SelectorExpr:
		k := core.SSATypeName(info.TypeOf(x.X))
		switch k {
		case "":
			return ""
		case "CallCommon":
			return "Call." + x.Sel.Name
		case "SelectState":
			return "States." + x.Sel.Name
		}
		return k + "." + x.Sel.Name
	case *ast.Ident:
		return rangeVars[info.ObjectOf(x)]
	case *ast.IndexExpr:
		return operandOfExpr(x.X, info, rangeVars)
	}
	return ""
}

func collectRangeVars(body ast.Node, info *types.Info) map[types.Object]string {
	res := map[types.Object]string{}
	ast.Inspect(body, func(n ast.Node) bool {
		rs, ok := n.(*ast.RangeStmt)
		if !ok {
			return true
		}
		if op := operandOfExpr(rs.X, info, nil); op != "" {
			if id, ok := rs.Value.(*ast.Ident); ok {
				res[info.ObjectOf(id)] = op
			}
		}
		return true
	})
	return res
}

func c05(c *core.Ctx, r *core.Report) {
	r.Explain("R05.pure: non-interference of the report/coverage/log options: every read of an Options field with yaml tag report-coverage, report-paths, report-summaries, report-no-callee-sites, reports-dir, coverage-filter, log-level or silence-warn (and of LogGroup fields, and results of functions returning such a value: Logs*(), openCoverage, openSummaries, MatchCoverageFilter) is a source; a source-derived value may only flow into branch conditions, output calls, or non-result memory; for every branch on a source-derived condition no instruction in the controlled region (blocks dominated by a branch successor that do not post-dominate the branch; everything reachable when the region can return) writes a field of a result-relevant type or calls a repository function whose transitive write summary touches such a field. R05.ondemand: the functions that decide what to summarise on demand at a global (lang.FnReadsFrom / FnWritesTo) cover every operand position at which the intra-procedural pass can create a global read or write (they scan Operands(), or their explicit positions are a superset of the transfer functions' address operands). R05.alarms: a reached sink is recorded before the alarm counter is consulted; the counter test is `max <= 0 || count < max`; entry-point iteration stops only through the same test.")
	r.NotDecided("equality of results between eager and on-demand summarisation, or under pkg-filter, beyond R05.ondemand; summary typestate over arbitrary on-demand sequences.")
	c05ondemand(c, r)
	c05alarms(c, r)
	c05pure(c, r)
	c05build(c, r)
	ensureRule(c, r, "R05.ensure", "analysis/taint", "Visitor.Visit", 8)
}

func c05ondemand(c *core.Ctx, r *core.Report) {
	p := c.Pkg("analysis/dataflow")
	if p == nil {
		r.Fail("infra.anchor-unresolved", "R05.ondemand|analysis/dataflow", "", "not found")
		return
	}
	info := p.TypesInfo
	transferFns := map[string][2]int{"simpleTransfer": {2, 3}, "transfer": {2, 3}, "transferPre": {2, 3}, "transferCopy": {2, 3}}
	reads, writes := map[string]bool{}, map[string]bool{}
	for _, f := range p.Syntax {
		for _, d := range f.Decls {
			fd, ok := d.(*ast.FuncDecl)
			if !ok || fd.Body == nil || fd.Recv == nil || !strings.HasPrefix(fd.Name.Name, "Do") {
				continue
			}
			rv := collectRangeVars(fd.Body, info)
			ast.Inspect(fd.Body, func(n ast.Node) bool {
				call, ok := n.(*ast.CallExpr)
				if !ok {
					return true
				}
				o := core.CalleeObj(call, info)
				if o == nil {
					return true
				}
				idx, ok := transferFns[o.Name()]
				if !ok || len(call.Args) <= idx[1] {
					return true
				}
				if op := operandOfExpr(call.Args[idx[0]], info, rv); op != "" {
					reads[op] = true
				}
				if op := operandOfExpr(call.Args[idx[1]], info, rv); op != "" {
					writes[op] = true
				}
				return true
			})
		}
	}
	// doBuiltinCall / callCommonMark / makeEdgesAtCallSite read call arguments
	reads["Call.Args"] = true
	// DoStore's special case writes through the base of a FieldAddr address
	if fd, _ := c.Decl("analysis/dataflow", "IntraAnalysisState.DoStore"); fd != nil {
		if exprAny(fd.Body, func(n ast.Node) bool {
			se, ok := n.(*ast.SelectorExpr)
			return ok && se.Sel.Name == "X" && core.SSATypeName(info.TypeOf(se.X)) == "FieldAddr"
		}) {
			writes["Store.Addr->FieldAddr.X"] = true
		}
	}
	r.Extra["transfer_read_positions"] = keys(reads)
	r.Extra["transfer_write_positions"] = keys(writes)
	lp := c.Pkg("analysis/lang")
	for _, spec := range []struct {
		fn   string
		need map[string]bool
		what string
	}{{"FnReadsFrom", reads, "read"}, {"FnWritesTo", writes, "write"}} {
		fn := c.Func("analysis/lang", spec.fn)
		fd, _ := c.Decl("analysis/lang", spec.fn)
		if fn == nil || fd == nil {
			r.Fail("infra.anchor-unresolved", "R05.ondemand|analysis/lang."+spec.fn, "", "not found")
			continue
		}
		r.Analysed("analysis/lang." + spec.fn)
		// complete if the function (or a callee in package lang) calls Instruction.Operands
		cone := c.RepoGraph().Cone(false, fn)
		usesOperands := false
		for f := range cone {
			for _, b := range f.Blocks {
				for _, ins := range b.Instrs {
					if ci, ok := ins.(ssa.CallInstruction); ok && ci.Common().IsInvoke() && ci.Common().Method.Name() == "Operands" {
						usesOperands = true
					}
				}
			}
		}
		if usesOperands {
			r.OK("R05.ondemand", "analysis/lang."+spec.fn+"|all-operands", c.Pos(fd.Pos()), "scans Instruction.Operands(): every operand position is covered")
			continue
		}
		// explicit positions
		have := map[string]bool{}
		linfo := lp.TypesInfo
		ast.Inspect(fd.Body, func(n ast.Node) bool {
			be, ok := n.(*ast.BinaryExpr)
			if !ok || be.Op != token.EQL {
				return true
			}
			for _, side := range []ast.Expr{be.X, be.Y} {
				if op := operandOfExpr(side, linfo, nil); op != "" {
					have[op] = true
				}
			}
			return true
		})
		if have["Store.Addr"] && have["FieldAddr.X"] && spec.what == "write" {
			have["Store.Addr->FieldAddr.X"] = true
		}
		var need []string
		for op := range spec.need {
			if addressOperands[strings.TrimSuffix(op, "->FieldAddr.X")] || strings.Contains(op, "->") {
				need = append(need, op)
			}
		}
		sort.Strings(need)
		for _, op := range need {
			r.Check(have[op], "R05.ondemand", "analysis/lang."+spec.fn+"|"+op, c.Pos(fd.Pos()), "position is scanned",
				fmt.Sprintf("the intra-procedural pass creates a global %s at operand position %s but %s does not look there: with summarize-on-demand a function touching the global only that way is never summarised and its flows are lost, unlike in eager mode", spec.what, op, spec.fn))
		}
	}
	r.Floor("R05.ondemand", 2, "two scanners")
}

func keys(m map[string]bool) []string {
	var res []string
	for k := range m {
		res = append(res, k)
	}
	sort.Strings(res)
	return res
}

func c05alarms(c *core.Ctx, r *core.Report) {
	vf := c.Func("analysis/taint", "Visitor.Visit")
	if vf == nil {
		r.Fail("infra.anchor-unresolved", "R05.alarms|Visit", "", "not found")
		return
	}
	var rec, cnt []ssa.Instruction
	for _, b := range vf.Blocks {
		for _, ins := range b.Instrs {
			if sc := core.StaticCalleeOf(ins); sc != nil {
				switch sc.Name() {
				case "addNewPathCandidate":
					rec = append(rec, ins)
				case "IncrementAndTestAlarms", "TestAlarmCount":
					cnt = append(cnt, ins)
				}
			}
		}
	}
	ok := len(rec) > 0 && len(cnt) > 0
	for _, x := range cnt {
		dom := false
		for _, y := range rec {
			if core.InstrDominates(y, x) {
				dom = true
			}
		}
		if !dom {
			ok = false
		}
	}
	r.Check(ok, "R05.alarms", "analysis/taint.Visitor.Visit|record-before-count", c.Pos(vf.Pos()), "every alarm-counter test in Visit is dominated by the recording of the reached sink",
		"the alarm limit is consulted before the reached sink is recorded: with max-alarms = k the result can be empty although the unlimited result is not, or not a subset")
	if fd, p := c.Decl("analysis/dataflow", "AnalyzerState.TestAlarmCount"); fd != nil {
		var le, lt bool
		ast.Inspect(fd.Body, func(n ast.Node) bool {
			be, ok := n.(*ast.BinaryExpr)
			if !ok {
				return true
			}
			mentionsMax := exprAny(be, func(m ast.Node) bool { se, ok := m.(*ast.SelectorExpr); return ok && se.Sel.Name == "MaxAlarms" })
			if !mentionsMax {
				return true
			}
			if be.Op == token.LEQ {
				if tv := p.TypesInfo.Types[be.Y]; tv.Value != nil && tv.Value.ExactString() == "0" {
					le = true
				}
			}
			if be.Op == token.LSS {
				lt = true
			}
			return true
		})
		r.Check(le && lt, "R05.alarms", "analysis/dataflow.AnalyzerState.TestAlarmCount|shape", c.Pos(fd.Pos()), "test is `MaxAlarms <= 0 || count < MaxAlarms`", "the alarm test is not `max <= 0 || count < max`: more than k alarms are reported, or an unlimited setting stops early")
	} else {
		r.Fail("infra.anchor-unresolved", "R05.alarms|TestAlarmCount", "", "not found")
	}
	if fn := c.Func("analysis/dataflow", "AnalyzerState.IncrementAndTestAlarms"); fn != nil {
		var add, test ssa.Instruction
		for _, b := range fn.Blocks {
			for _, ins := range b.Instrs {
				if sc := core.StaticCalleeOf(ins); sc != nil {
					if sc.Name() == "Add" {
						add = ins
					}
					if sc.Name() == "TestAlarmCount" {
						test = ins
					}
				}
			}
		}
		r.Check(add != nil && test != nil && core.InstrDominates(add, test), "R05.alarms", "analysis/dataflow.AnalyzerState.IncrementAndTestAlarms|increment-then-test", c.Pos(fn.Pos()),
			"counter is incremented (atomically) before it is tested", "counter is tested before being incremented or not incremented at all")
	}
	r.Floor("R05.alarms", 3, "Visit, TestAlarmCount, IncrementAndTestAlarms")
}
