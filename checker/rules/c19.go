package rules

import (
	"fmt"
	"go/ast"
	"go/types"
	"sort"
	"strings"

	"golang.org/x/tools/go/ssa"

	"verif/checker/core"
)

func init() { Registry["C19"] = c19 }

// infeasibleByFact: branch decisions that cannot happen given documented go/ssa
// facts; a path containing one is discharged.
func infeasibleStep(desc string) (string, bool) {
	// MakeClosure.Fn is always a *ssa.Function (go/ssa doc: "Fn Value // always a *Function")
	if strings.Contains(desc, ".Fn,*ssa.Function)=false") {
		return "MakeClosure.Fn is always a *ssa.Function (go/ssa invariant)", true
	}
	return "", false
}

func c19(c *core.Ctx, r *core.Report) {
	r.Explain("R19.forms: must-pass-through on the SSA control-flow graph of maypanic.findGoFunctions: every path from the entry of the `*ssa.Go` arm to the end of the loop iteration must call addGoFunction; paths are enumerated exhaustively and keyed by their branch decisions; decisions that contradict go/ssa invariants (MakeClosure.Fn is always a *ssa.Function) discharge the path. R19.recover: doesRecover recognises the recover builtin by type (*ssa.Builtin) in the function's own body; unhandled defer forms in doesDeferRecover answer 'does not recover' (over-report, allowed). R19.filter: the only removals from the go-function map are guarded by the allow-list / -exclude predicates.")
	r.NotDecided("whether the reported set is complete for programs whose goroutine entry is reached through the unrecorded forms (they are findings below); nothing about panics themselves.")
	fn := c.Func("analysis/maypanic", "findGoFunctions")
	if fn == nil {
		r.Fail("infra.anchor-unresolved", "R19.forms|analysis/maypanic.findGoFunctions", "", "not found")
		return
	}
	r.Analysed("analysis/maypanic.findGoFunctions")
	entries, ifBlocks := core.TypeCaseEntry(fn, "Go")
	if len(entries) == 0 {
		r.Fail("R19.forms", "analysis/maypanic.findGoFunctions|go-arm", c.Pos(fn.Pos()), "no arm for *ssa.Go: no goroutine is ever recorded")
		return
	}
	record := core.CallsNamed("addGoFunction")
	total, recorded := 0, 0
	for i, e := range entries {
		// the iteration ends when control reaches a block also reachable without entering the arm: the false successor's closure
		other := ifBlocks[i].Succs[1]
		stop := func(b *ssa.BasicBlock) bool { return b == other || b.Dominates(ifBlocks[i]) }
		paths, complete := core.EnumeratePaths(e, stop, 5000)
		if !complete {
			r.Fail("R19.forms", "analysis/maypanic.findGoFunctions|path-limit", c.Pos(fn.Pos()), "too many paths to enumerate (undecided)")
		}
		seen := map[string]bool{}
		for _, p := range paths {
			total++
			desc := p.Describe()
			if core.PathHas(p, false, record) {
				recorded++
				if !seen["ok|"+desc] {
					seen["ok|"+desc] = true
					r.OK("R19.forms", "analysis/maypanic.findGoFunctions|"+desc, c.Pos(e.Instrs[0].Pos()), "path records the launched function (addGoFunction)")
				}
				continue
			}
			if why, ok := infeasibleStep(desc); ok {
				r.Except("R19.forms", "analysis/maypanic.findGoFunctions|"+desc, c.Pos(e.Instrs[0].Pos()), "infeasible: "+why)
				continue
			}
			r.Fail("R19.forms", "analysis/maypanic.findGoFunctions|"+desc, c.Pos(e.Instrs[0].Pos()),
				"a go statement taking this path is not recorded: its entry function can never be reported as an unrecovered-panic goroutine")
		}
	}
	r.Extra["go_arm_paths"] = total
	r.Extra["go_arm_paths_recording"] = recorded
	r.Floor("R19.forms", 3, "function / closure arms + unrecorded arms")

	// ---- R19.recover
	if dr := c.Func("analysis/maypanic", "doesRecover"); dr != nil {
		r.Analysed("analysis/maypanic.doesRecover")
		// a return true must be control-dependent on: type assertion to *ssa.Builtin succeeded and Name()=="recover"
		ok := false
		for _, b := range dr.Blocks {
			ret, isRet := b.Instrs[len(b.Instrs)-1].(*ssa.Return)
			if !isRet || len(ret.Results) != 1 {
				continue
			}
			k, isK := ret.Results[0].(*ssa.Const)
			if !isK || k.Value == nil || k.Value.ExactString() != "true" {
				continue
			}
			// walk dominators for the Builtin assertion and the "recover" comparison
			hasB, hasName := false, false
			for d := b; d != nil; d = d.Idom() {
				for _, p := range d.Preds {
					if iff, isIf := p.Instrs[len(p.Instrs)-1].(*ssa.If); isIf && p.Succs[0] == d {
						desc := core.DescribeValue(iff.Cond, 0)
						if strings.Contains(desc, ",*ssa.Builtin)") {
							hasB = true
						}
						if strings.Contains(desc, `"recover"`) {
							hasName = true
						}
					}
				}
			}
			if hasB && hasName {
				ok = true
			}
		}
		r.Check(ok, "R19.recover", "analysis/maypanic.doesRecover|builtin-by-type", c.Pos(dr.Pos()),
			"`true` is returned only for a call whose value is an *ssa.Builtin named recover", "doesRecover does not identify the recover builtin by type and name: a user function named recover (or no call at all) may count as recovering and hide a goroutine")
	} else {
		r.Fail("infra.anchor-unresolved", "R19.recover|analysis/maypanic.doesRecover", "", "not found")
	}

	// ---- R19.filter: delete on map[*ssa.Function][]token.Pos only under allowListed/IsExcluded
	p := c.Pkg("analysis/maypanic")
	n := 0
	for _, f := range p.Syntax {
		var stack []ast.Node
		ast.Inspect(f, func(nd ast.Node) bool {
			if nd == nil {
				stack = stack[:len(stack)-1]
				return true
			}
			stack = append(stack, nd)
			call, ok := nd.(*ast.CallExpr)
			if !ok {
				return true
			}
			id, ok := call.Fun.(*ast.Ident)
			if !ok || id.Name != "delete" || len(call.Args) != 2 {
				return true
			}
			mt, ok := p.TypesInfo.TypeOf(call.Args[0]).Underlying().(*types.Map)
			if !ok || core.SSATypeName(mt.Key()) != "Function" {
				return true
			}
			n++
			guard := false
			var names []string
			for _, anc := range stack {
				if ifs, ok := anc.(*ast.IfStmt); ok && call.Pos() >= ifs.Body.Pos() && call.End() <= ifs.Body.End() {
					ast.Inspect(ifs.Cond, func(m ast.Node) bool {
						if cc, ok := m.(*ast.CallExpr); ok {
							if o := core.CalleeObj(cc, p.TypesInfo); o != nil {
								names = append(names, o.Name())
							}
						}
						return true
					})
				}
			}
			sort.Strings(names)
			for _, nm := range names {
				if nm == "allowListed" || nm == "IsExcluded" {
					guard = true
				}
			}
			r.Check(guard, "R19.filter", fmt.Sprintf("analysis/maypanic|delete#%d", n), c.Pos(call.Pos()),
				"removal from the go-function map is guarded by "+strings.Join(names, "/"), "a goroutine entry is removed from the report set outside the allow-list / -exclude filters")
			return true
		})
	}
	r.Floor("R19.filter", 1, "one filter site")
}
