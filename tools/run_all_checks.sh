#!/bin/bash
# Runs every registered check (quick, then thorough) on /repo, N at a time; prints one line per check.
# The evidence files left behind come from the thorough runs.
j=${1:-4}
ids=$(python3 -c "import json;print(' '.join(c['property_id'] for c in json.load(open('/verif/MANIFEST.json'))['checks']))")
run() {
  id=$1
  q=$(python3 -c "import json;print([c for c in json.load(open('/verif/MANIFEST.json'))['checks'] if c['property_id']=='$id'][0]['quick_cmd'])")
  t=$(python3 -c "import json;print([c for c in json.load(open('/verif/MANIFEST.json'))['checks'] if c['property_id']=='$id'][0]['thorough_cmd'])")
  (cd /verif && bash -c "$q" > /tmp/chk_${id}_q.log 2>&1); eq=$?
  (cd /verif && bash -c "$t" > /tmp/chk_${id}_t.log 2>&1); et=$?
  echo "$id quick=$eq thorough=$et violation-lines=$(cat /tmp/chk_${id}_q.log /tmp/chk_${id}_t.log | grep -c '^VIOLATION') known=$(grep -c '^KNOWN-FINDING' /tmp/chk_${id}_t.log)"
}
n=0
for id in $ids; do
  run $id &
  n=$((n+1))
  if [ $n -ge $j ]; then wait -n; n=$((n-1)); fi
done
wait
