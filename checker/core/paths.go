package core

import (
	"fmt"
	"go/token"
	"go/types"
	"strings"

	"golang.org/x/tools/go/ssa"
)

// PathStep is one branch decision on a CFG path.
type PathStep struct {
	Block *ssa.BasicBlock
	Succ  int // index of the successor taken
}

// Path is an acyclic CFG path.
type Path struct {
	Steps  []PathStep
	Blocks []*ssa.BasicBlock
}

// Describe renders the branch decisions of a path in a line-number-free way.
func (p Path) Describe() string {
	var parts []string
	for _, s := range p.Steps {
		if iff, ok := s.Block.Instrs[len(s.Block.Instrs)-1].(*ssa.If); ok {
			parts = append(parts, fmt.Sprintf("%s=%v", DescribeValue(iff.Cond, 0), s.Succ == 0))
		}
	}
	if len(parts) == 0 {
		return "straight-line"
	}
	return strings.Join(parts, ",")
}

// DescribeValue gives a structural, register-name-free description of v.
func DescribeValue(v ssa.Value, depth int) string {
	if depth > 6 {
		return "..."
	}
	short := func(t types.Type) string { return ShortType(t) }
	switch x := v.(type) {
	case *ssa.Extract:
		if ta, ok := x.Tuple.(*ssa.TypeAssert); ok && x.Index == 1 {
			return "is(" + DescribeValue(ta.X, depth+1) + "," + short(ta.AssertedType) + ")"
		}
		if ta, ok := x.Tuple.(*ssa.TypeAssert); ok && x.Index == 0 {
			return "as(" + short(ta.AssertedType) + ")"
		}
		return fmt.Sprintf("extract#%d(%s)", x.Index, DescribeValue(x.Tuple, depth+1))
	case *ssa.TypeAssert:
		return "assert(" + DescribeValue(x.X, depth+1) + "," + short(x.AssertedType) + ")"
	case *ssa.Call:
		if x.Call.IsInvoke() {
			return DescribeValue(x.Call.Value, depth+1) + "." + x.Call.Method.Name() + "()"
		}
		if sc := x.Call.StaticCallee(); sc != nil {
			name := sc.Name()
			if sc.Signature.Recv() != nil && len(x.Call.Args) > 0 {
				return DescribeValue(x.Call.Args[0], depth+1) + "." + name + "()"
			}
			var as []string
			for _, a := range x.Call.Args {
				as = append(as, DescribeValue(a, depth+1))
			}
			return name + "(" + strings.Join(as, ",") + ")"
		}
		if b, ok := x.Call.Value.(*ssa.Builtin); ok {
			var as []string
			for _, a := range x.Call.Args {
				as = append(as, DescribeValue(a, depth+1))
			}
			return b.Name() + "(" + strings.Join(as, ",") + ")"
		}
		return "dyncall"
	case *ssa.UnOp:
		if x.Op == token.MUL {
			return DescribeValue(x.X, depth+1)
		}
		return x.Op.String() + DescribeValue(x.X, depth+1)
	case *ssa.FieldAddr:
		_, f := FieldOf(x)
		if f != nil {
			return DescribeValue(x.X, depth+1) + "." + f.Name()
		}
	case *ssa.Field:
		_, f := FieldOf(x)
		if f != nil {
			return DescribeValue(x.X, depth+1) + "." + f.Name()
		}
	case *ssa.BinOp:
		return "(" + DescribeValue(x.X, depth+1) + x.Op.String() + DescribeValue(x.Y, depth+1) + ")"
	case *ssa.Parameter:
		return x.Name()
	case *ssa.FreeVar:
		return x.Name()
	case *ssa.Const:
		if x.Value == nil {
			return "nil"
		}
		return x.Value.ExactString()
	case *ssa.Phi:
		if x.Comment != "" {
			return "phi:" + x.Comment
		}
		return "phi"
	case *ssa.Global:
		return x.Name()
	case *ssa.Function:
		return x.Name()
	case *ssa.Lookup:
		return DescribeValue(x.X, depth+1) + "[" + DescribeValue(x.Index, depth+1) + "]"
	case *ssa.IndexAddr:
		return DescribeValue(x.X, depth+1) + "[" + DescribeValue(x.Index, depth+1) + "]"
	case *ssa.MakeInterface:
		return DescribeValue(x.X, depth+1)
	case *ssa.ChangeType:
		return DescribeValue(x.X, depth+1)
	case *ssa.Convert:
		return DescribeValue(x.X, depth+1)
	case *ssa.Alloc:
		if x.Comment != "" {
			return x.Comment
		}
	}
	return "<" + short(v.Type()) + ">"
}

// EnumeratePaths lists the acyclic paths from block `from` that end when they
// reach a block for which stop returns true (stop blocks are included as the
// last block of the path) or a block without successors. At most limit paths
// are returned; the boolean is false if the limit was hit.
func EnumeratePaths(from *ssa.BasicBlock, stop func(*ssa.BasicBlock) bool, limit int) ([]Path, bool) {
	var res []Path
	complete := true
	var rec func(b *ssa.BasicBlock, steps []PathStep, blocks []*ssa.BasicBlock, on map[*ssa.BasicBlock]bool)
	rec = func(b *ssa.BasicBlock, steps []PathStep, blocks []*ssa.BasicBlock, on map[*ssa.BasicBlock]bool) {
		if len(res) >= limit {
			complete = false
			return
		}
		blocks = append(blocks, b)
		if (len(blocks) > 1 && stop(b)) || len(b.Succs) == 0 {
			res = append(res, Path{Steps: append([]PathStep{}, steps...), Blocks: append([]*ssa.BasicBlock{}, blocks...)})
			return
		}
		on[b] = true
		for i, s := range b.Succs {
			if on[s] {
				// back edge: the path ends here (loop iteration complete)
				res = append(res, Path{Steps: append(append([]PathStep{}, steps...), PathStep{b, i}), Blocks: append(append([]*ssa.BasicBlock{}, blocks...), s)})
				continue
			}
			rec(s, append(steps, PathStep{b, i}), blocks, on)
		}
		delete(on, b)
	}
	rec(from, nil, nil, map[*ssa.BasicBlock]bool{})
	return res, complete
}

// PathHas reports whether any instruction on the path (excluding the final
// stop block unless inclLast) satisfies pred.
func PathHas(p Path, inclLast bool, pred func(ssa.Instruction) bool) bool {
	n := len(p.Blocks)
	if !inclLast {
		n--
	}
	for i := 0; i < n; i++ {
		for _, ins := range p.Blocks[i].Instrs {
			if pred(ins) {
				return true
			}
		}
	}
	return false
}

// CallsNamed returns a predicate matching static calls (incl. go/defer) to a
// function or method with the given name.
func CallsNamed(names ...string) func(ssa.Instruction) bool {
	return func(ins ssa.Instruction) bool {
		ci, ok := ins.(ssa.CallInstruction)
		if !ok {
			return false
		}
		var nm string
		if ci.Common().IsInvoke() {
			nm = ci.Common().Method.Name()
		} else if sc := ci.Common().StaticCallee(); sc != nil {
			nm = sc.Name()
		}
		for _, n := range names {
			if n == nm {
				return true
			}
		}
		return false
	}
}

// TypeCaseEntry finds, in fn, the blocks entered when a comma-ok type
// assertion of some value to the go/ssa type named typeName succeeds (the
// entry of `case *ssa.<typeName>:` arms), together with the If block.
func TypeCaseEntry(fn *ssa.Function, typeName string) (entries []*ssa.BasicBlock, ifBlocks []*ssa.BasicBlock) {
	for _, b := range fn.Blocks {
		if len(b.Instrs) == 0 {
			continue
		}
		iff, ok := b.Instrs[len(b.Instrs)-1].(*ssa.If)
		if !ok {
			continue
		}
		ex, ok := iff.Cond.(*ssa.Extract)
		if !ok || ex.Index != 1 {
			continue
		}
		ta, ok := ex.Tuple.(*ssa.TypeAssert)
		if !ok || SSATypeName(ta.AssertedType) != typeName {
			continue
		}
		entries = append(entries, b.Succs[0])
		ifBlocks = append(ifBlocks, b)
	}
	return
}

// TypeCaseEntryOf is TypeCaseEntry for an arbitrary asserted type given by
// its short name (e.g. "*dataflow.ParamNode").
func TypeCaseEntryOf(fn *ssa.Function, shortType string) (entries []*ssa.BasicBlock, ifBlocks []*ssa.BasicBlock) {
	for _, b := range fn.Blocks {
		if len(b.Instrs) == 0 {
			continue
		}
		iff, ok := b.Instrs[len(b.Instrs)-1].(*ssa.If)
		if !ok {
			continue
		}
		ex, ok := iff.Cond.(*ssa.Extract)
		if !ok || ex.Index != 1 {
			continue
		}
		ta, ok := ex.Tuple.(*ssa.TypeAssert)
		if !ok || ShortType(ta.AssertedType) != shortType {
			continue
		}
		entries = append(entries, b.Succs[0])
		ifBlocks = append(ifBlocks, b)
	}
	return
}

