package rules

import (
	"fmt"
	"sort"

	"golang.org/x/tools/go/ssa"

	"verif/checker/core"
)

func init() { Registry["INV-steps"] = invSteps }

func invSteps(c *core.Ctx, r *core.Report) {
	fn := c.Func("analysis/dataflow", "NewInitializedAnalyzerState")
	g := c.RepoGraph()
	for i, an := range fn.AnonFuncs {
		cone := g.NilAwareCone(an)
		fmt.Println("step", i+1, "cone", len(cone))
		var names []string
		for f, lb := range cone {
			for _, b := range f.Blocks {
				if !lb[b] {
					continue
				}
				for _, ins := range b.Instrs {
					if fa, ok := ins.(*ssa.FieldAddr); ok {
						if n, fl := core.FieldOf(fa); n != nil && n.Obj().Name() == "AnalyzerState" && (fl.Name() == "PointerAnalysis" || fl.Name() == "Globals") {
							names = append(names, fl.Name()+" in "+core.ShortFunc(f))
						}
					}
				}
			}
		}
		sort.Strings(names)
		for _, n := range names {
			fmt.Println("   ", n)
		}
	}
	r.OK("inv", "x", "", "")
}

func init() { Registry["INV-path"] = invPath }

func invPath(c *core.Ctx, r *core.Report) {
	fn := c.Func("analysis/dataflow", "NewInitializedAnalyzerState")
	g := c.RepoGraph()
	target := c.Func("analysis/dataflow", "AnalyzerState.ResolveCallee")
	root := fn.AnonFuncs[0]
	prev := map[*ssa.Function]*ssa.Function{root: nil}
	q := []*ssa.Function{root}
	for len(q) > 0 {
		f := q[0]
		q = q[1:]
		if f == target {
			for x := f; x != nil; x = prev[x] {
				fmt.Println("  <-", core.ShortFunc(x))
			}
			break
		}
		for _, t := range g.Callees[f] {
			if _, ok := prev[t]; !ok && c.IsRepoFunc(t) {
				prev[t] = f
				q = append(q, t)
			}
		}
	}
	r.OK("inv", "x", "", "")
}

func init() { Registry["INV-callers"] = invCallers }

func invCallers(c *core.Ctx, r *core.Report) {
	fn := c.Func("analysis/dataflow", "NewInitializedAnalyzerState")
	g := c.RepoGraph()
	cone := g.NilAwareCone(fn.AnonFuncs[0])
	var show func(t *ssa.Function, depth int, seen map[*ssa.Function]bool)
	show = func(t *ssa.Function, depth int, seen map[*ssa.Function]bool) {
		if depth > 6 || seen[t] {
			return
		}
		seen[t] = true
		for _, cl := range g.Callers[t] {
			if lb, ok := cone[cl]; ok {
				// is the call in a live block?
				liveCall := false
				for _, b := range cl.Blocks {
					if !lb[b] {
						continue
					}
					for _, ins := range b.Instrs {
						for _, ce := range g.CalleesAt(ins) {
							if ce == t {
								liveCall = true
							}
						}
						if mc, ok := ins.(*ssa.MakeClosure); ok && mc.Fn == t {
							liveCall = true
						}
					}
				}
				if liveCall {
					fmt.Printf("%*s<- %s\n", depth*2, "", core.ShortFunc(cl))
					show(cl, depth+1, seen)
				}
			}
		}
	}
	show(c.Func("analysis/dataflow", "AnalyzerState.ResolveCallee"), 0, map[*ssa.Function]bool{})
	r.OK("inv", "x", "", "")
}
