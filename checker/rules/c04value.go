package rules

import (
	"fmt"
	"sort"
	"strings"

	"golang.org/x/tools/go/ssa"

	"verif/checker/core"
)

// callValueRule: identification code must not derive what it matches from
// ssa.CallInstruction.Value(), which is nil for go and defer statements. Every
// invoke of that method in the identification source files is followed forward
// (through phis, conversions, assertions and the results of methods called on
// the value): it is a violation if the value reaches a field of a
// config.CodeIdentifier, or is handed to a function value or to a repository
// function other than logging / formatting. A use that only feeds log or error
// messages is discharged.
func callValueRule(c *core.Ctx, r *core.Report, rule string) {
	scope := map[string][]string{
		"analysis/dataflow":     {"inter_procedural.go", "annotation_resolver.go"},
		"analysis/taint":        {"code_identifiers.go", "taint.go"},
		"internal/analysisutil": {"analysisutil.go"},
		"analysis/backtrace":    {"backtrace.go"},
	}
	inScope := func(fn *ssa.Function) bool {
		files := scope[c.FuncPkgRel(fn)]
		file := c.Fset.Position(fn.Pos()).Filename
		for _, f := range files {
			if strings.HasSuffix(file, "/"+f) {
				return true
			}
		}
		return false
	}
	isLogging := func(callee *ssa.Function) bool {
		if callee == nil {
			return false
		}
		if callee.Pkg != nil {
			switch callee.Pkg.Pkg.Path() {
			case "fmt", "log", "strings", "errors":
				return true
			}
		}
		if recv := callee.Signature.Recv(); recv != nil && strings.HasSuffix(core.ShortType(recv.Type()), "config.LogGroup") {
			return true
		}
		rel := c.FuncPkgRel(callee)
		return rel == "internal/formatutil"
	}
	nFn, nSites := 0, 0
	byRoot := map[*ssa.Function][]*ssa.Call{}
	var roots []*ssa.Function
	for _, fn := range c.RepoFunctions() {
		if !inScope(fn) {
			continue
		}
		nFn++
		root := fn
		for root.Parent() != nil {
			root = root.Parent()
		}
		if _, ok := byRoot[root]; !ok {
			roots = append(roots, root)
			byRoot[root] = nil
		}
		for _, b := range fn.Blocks {
			for _, ins := range b.Instrs {
				call, ok := ins.(*ssa.Call)
				if !ok || !call.Call.IsInvoke() || call.Call.Method.Name() != "Value" {
					continue
				}
				if !strings.HasSuffix(call.Call.Value.Type().String(), "ssa.CallInstruction") {
					continue
				}
				byRoot[root] = append(byRoot[root], call)
			}
		}
	}
	for _, root := range roots {
		sites := byRoot[root]
		name := strings.TrimPrefix(c.FuncName(root), "(*")
		name = strings.Replace(name, ").", ".", 1)
		sort.Slice(sites, func(i, j int) bool { return sites[i].Pos() < sites[j].Pos() })
		for i, site := range sites {
			nSites++
			sink := ""
			seen := map[ssa.Value]bool{}
			var fwd func(v ssa.Value, d int)
			fwd = func(v ssa.Value, d int) {
				if sink != "" || seen[v] || d > 12 || v.Referrers() == nil {
					return
				}
				seen[v] = true
				for _, ref := range *v.Referrers() {
					switch x := ref.(type) {
					case *ssa.Phi, *ssa.ChangeInterface, *ssa.MakeInterface, *ssa.ChangeType, *ssa.TypeAssert, *ssa.Extract:
						fwd(x.(ssa.Value), d+1)
					case *ssa.Store:
						if x.Val == v {
							if n, f := core.FieldOf(x.Addr); n != nil && strings.HasSuffix(qualNamed(n), "config.CodeIdentifier") {
								sink = "stored in CodeIdentifier." + f.Name()
							} else if al, ok := x.Addr.(*ssa.Alloc); ok {
								// spilled local: follow its loads
								if al.Referrers() != nil {
									for _, lr := range *al.Referrers() {
										if ld, ok := lr.(*ssa.UnOp); ok {
											fwd(ld, d+1)
										}
									}
								}
							}
						}
					case ssa.CallInstruction:
						cc := x.Common()
						if cc.IsInvoke() && cc.Value == v {
							// a method of the value itself (String, Pos, Parent, Name, Type): follow its result
							if val, ok := x.(ssa.Value); ok {
								fwd(val, d+1)
							}
							continue
						}
						sc := cc.StaticCallee()
						switch {
						case sc == nil:
							sink = "passed to a function value (" + core.DescribeValue(cc.Value, 0) + ")"
						case isLogging(sc):
						case c.IsRepoFunc(sc):
							sink = "passed to " + core.ShortFunc(sc)
						default:
							// other library call (e.g. a method on the resulting string): follow the result
							if val, ok := x.(ssa.Value); ok {
								fwd(val, d+1)
							}
						}
					}
				}
			}
			fwd(site, 0)
			key := fmt.Sprintf("%s|CallInstruction.Value()#%d", name, i+1)
			r.Check(sink == "", rule, key, c.Pos(site.Pos()),
				"the value is used for messages only",
				"identification of a call goes through CallInstruction.Value(), which is nil for go and defer statements ("+sink+"): a go/defer-form call matching a specification (source, backtrace point, or a sink/sanitizer given with value-match) is not identified")
		}
	}
	if nSites == 0 {
		r.OK(rule, "identification|CallInstruction.Value()", "", "no identification code goes through CallInstruction.Value()")
	}
	if nFn < 30 {
		r.Fail("infra.floor", rule+"|value-scope", "", fmt.Sprintf("only %d functions found in the identification source files", nFn))
	}
}
