package main

import (
	"fmt"
	"io"
)

type file struct{}

func (*file) Read(p []byte) (int, error) { return 0, io.EOF }
func (*file) Close() error               { fmt.Println("runs: (*file).Close"); return nil }

func open() io.Reader { return &file{} } // converted to io.Reader only: only Read is marked

func main() {
	r := open()
	if c, ok := r.(io.Closer); ok { // interface-to-interface assertion widens the callable methods
		c.Close()
	}
}
