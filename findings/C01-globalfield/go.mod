module ondemand
go 1.22
