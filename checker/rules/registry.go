// Package rules holds the per-property rule instances.
package rules

import "verif/checker/core"

// Registry maps property ids to their rule sets.
var Registry = map[string]func(*core.Ctx, *core.Report){}
