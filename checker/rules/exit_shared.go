package rules

import (
	"fmt"
	"go/ast"
	"go/constant"
	"strings"

	"golang.org/x/tools/go/ssa"

	"verif/checker/core"
)

// exitRule: in cmd/argot/taint.Run every `return nil` reachable after the
// call to taint.Analyze must lie on the path where both len(Sinks) > 0 and
// len(Escapes) > 0 are false (which("Sinks"/"Escapes") selects the clause
// reported); errExit exits with a non-zero status and main routes Run's error
// to it.
func exitRule(c *core.Ctx, r *core.Report, rule string, fields ...string) {
	fn := c.Func("cmd/argot/taint", "Run")
	if fn == nil {
		r.Fail("infra.anchor-unresolved", rule+"|cmd/argot/taint.Run", "", "not found")
		return
	}
	r.Analysed("cmd/argot/taint.Run")
	var analyzeBlock *ssa.BasicBlock
	for _, b := range fn.Blocks {
		for _, ins := range b.Instrs {
			if sc := core.StaticCalleeOf(ins); sc != nil && sc.Name() == "Analyze" && c.FuncPkgRel(sc) == "analysis/taint" {
				analyzeBlock = b
			}
		}
	}
	if analyzeBlock == nil {
		r.Fail("infra.anchor-unresolved", rule+"|cmd/argot/taint.Run|Analyze", c.Pos(fn.Pos()), "call to taint.Analyze not found")
		return
	}
	paths, complete := core.EnumeratePaths(analyzeBlock, func(b *ssa.BasicBlock) bool { return false }, 20000)
	if !complete {
		r.Fail(rule, "cmd/argot/taint.Run|path-limit", c.Pos(fn.Pos()), "too many paths (undecided)")
	}
	nNil := 0
	bad := map[string]bool{}
	for _, p := range paths {
		last := p.Blocks[len(p.Blocks)-1]
		ret, ok := last.Instrs[len(last.Instrs)-1].(*ssa.Return)
		if !ok || len(ret.Results) != 1 {
			continue
		}
		k, isConst := ret.Results[0].(*ssa.Const)
		if !isConst || !k.IsNil() {
			continue
		}
		nNil++
		desc := p.Describe()
		for _, f := range fields {
			okf := false
			for _, part := range strings.Split(desc, ",") {
				if strings.Contains(part, "."+f+")") && strings.Contains(part, ">0") && strings.HasSuffix(part, "=false") {
					okf = true
				}
				if strings.Contains(part, "."+f+")") && strings.Contains(part, "==0") && strings.HasSuffix(part, "=true") {
					okf = true
				}
			}
			if !okf {
				bad[f] = true
			}
		}
	}
	for _, f := range fields {
		r.Check(nNil > 0 && !bad[f], rule, "cmd/argot/taint.Run|success-implies-no-"+f, c.Pos(fn.Pos()),
			fmt.Sprintf("every success return after the analysis (%d paths) lies on the branch where len(TaintFlows.%s) > 0 is false", nNil, f),
			"a success return is reachable after the analysis without having established len(TaintFlows."+f+") == 0: the tool can exit 0 although it found "+strings.ToLower(f))
	}
	// errExit exits non-zero; main calls it on Run's error
	if fd, p := c.Decl("cmd/argot", "errExit"); fd != nil {
		nonzero := false
		ast.Inspect(fd.Body, func(n ast.Node) bool {
			call, ok := n.(*ast.CallExpr)
			if !ok || len(call.Args) != 1 {
				return true
			}
			if o := core.CalleeObj(call, p.TypesInfo); o != nil && o.Pkg() != nil && o.Pkg().Path() == "os" && o.Name() == "Exit" {
				if tv := p.TypesInfo.Types[call.Args[0]]; tv.Value != nil {
					if v, ok := constant.Int64Val(constant.ToInt(tv.Value)); ok && v != 0 {
						nonzero = true
					}
				}
			}
			return true
		})
		r.Check(nonzero, rule, "cmd/argot.errExit|non-zero-status", c.Pos(fd.Pos()), "errExit terminates the process with a non-zero constant status", "errExit does not exit with a non-zero status")
	} else {
		r.Fail("infra.anchor-unresolved", rule+"|cmd/argot.errExit", "", "not found")
	}
	if mf := c.Func("cmd/argot", "main"); mf != nil {
		// the error returned by taint.Run must reach errExit on the err != nil branch
		ok := false
		for _, b := range mf.Blocks {
			for _, ins := range b.Instrs {
				call, isCall := ins.(*ssa.Call)
				if !isCall {
					continue
				}
				if sc := call.Call.StaticCallee(); sc == nil || sc.Name() != "Run" || c.FuncPkgRel(sc) != "cmd/argot/taint" {
					continue
				}
				for _, ref := range *call.Referrers() {
					bo, isB := ref.(*ssa.BinOp)
					if !isB {
						continue
					}
					for _, r2 := range *bo.Referrers() {
						if iff, isIf := r2.(*ssa.If); isIf {
							tb := iff.Block().Succs[0]
							if bo.Op.String() == "==" {
								tb = iff.Block().Succs[1]
							}
							for _, i2 := range tb.Instrs {
								if sc := core.StaticCalleeOf(i2); sc != nil && sc.Name() == "errExit" {
									ok = true
								}
							}
						}
					}
				}
			}
		}
		r.Check(ok, rule, "cmd/argot.main|taint-error-exits", c.Pos(mf.Pos()), "main passes a non-nil error of taint.Run to errExit", "main does not route the taint tool's error to errExit: the process exits 0 on reported flows")
	}
}
