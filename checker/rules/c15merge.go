package rules

import (
	"fmt"
	"go/constant"
	"go/token"
	"sort"
	"strings"

	"golang.org/x/tools/go/ssa"

	"verif/checker/core"
)

// c15merge (R15.merge|built-from-monotone-ops): g.Merge(h) must be an upper
// bound of both operands: every edge (with every flag) and every status of h
// ends up in g. Decided on the SSA of Merge with helpers inlined: the calls
// g.AddEdge(...) and g.MergeNodeStatus(...) exist, their operands come from h,
// and they are control dependent only on the loops that enumerate h - or on a
// CONTAINMENT test that skips flags already present (`old&f == f`,
// `f&^old == 0`) for the very flags value handed to AddEdge. Any other
// condition (a numeric comparison of flag sets, a status test, a node kind)
// makes some edge of h conditional. When the enumeration goes through
// h.Edges(src, dest, mask) the arguments must be (nil, nil, EdgeAll).
func c15merge(c *core.Ctx, r *core.Report) {
	fn := c.Func("analysis/escape", "EscapeGraph.Merge")
	if fn == nil || len(fn.Params) != 2 {
		r.Fail("infra.anchor-unresolved", "R15.merge|Merge", "", "not found")
		return
	}
	key := "analysis/escape.EscapeGraph.Merge|built-from-monotone-ops"
	loopHeaders := map[*ssa.Function]map[*ssa.BasicBlock]bool{}
	isHeader := func(b *ssa.BasicBlock) bool {
		f := b.Parent()
		if loopHeaders[f] == nil {
			loopHeaders[f] = map[*ssa.BasicBlock]bool{}
			for _, l := range core.Loops(f) {
				loopHeaders[f][l.Header] = true
			}
		}
		return loopHeaders[f][b]
	}
	var edgeAll constant.Value
	if p := c.Pkg("analysis/escape"); p != nil {
		if o := p.Types.Scope().Lookup("EdgeAll"); o != nil {
			if k, ok := o.(interface{ Val() constant.Value }); ok {
				edgeAll = k.Val()
			}
		}
	}
	// containment test of `contained` in something: (a&contained)==contained / (contained&^a)==0; returns the successor index that is taken when contained
	containment := func(cond ssa.Value, contained ssa.Value) (int, bool) {
		bo, ok := cond.(*ssa.BinOp)
		if !ok || (bo.Op != token.EQL && bo.Op != token.NEQ) {
			return 0, false
		}
		yes := 0
		if bo.Op == token.NEQ {
			yes = 1
		}
		for _, pr := range [][2]ssa.Value{{bo.X, bo.Y}, {bo.Y, bo.X}} {
			in, isBin := pr[0].(*ssa.BinOp)
			if !isBin {
				continue
			}
			if in.Op == token.AND && pr[1] == contained && (in.X == contained || in.Y == contained) {
				return yes, true
			}
			if k, isC := pr[1].(*ssa.Const); isC && in.Op == token.AND_NOT && in.X == contained && k.Value != nil && constant.Sign(k.Value) == 0 {
				return yes, true
			}
		}
		return 0, false
	}
	gCanon := ""
	nAdd, nStatus := 0, 0
	var bad []string
	for _, ii := range core.InlinedInstrs(c, fn, c.Depth(1), func(ins ssa.Instruction) bool { _, ok := ins.(*ssa.Call); return ok }) {
		call := ii.Ins.(*ssa.Call)
		sc := call.Call.StaticCallee()
		if sc == nil || sc.Signature.Recv() == nil || len(call.Call.Args) == 0 || (sc.Name() != "AddEdge" && sc.Name() != "MergeNodeStatus") {
			continue
		}
		if gCanon == "" {
			gCanon = core.InlinedInstr{}.Canon(fn.Params[0])
		}
		if ii.Canon(call.Call.Args[0]) != gCanon {
			continue
		}
		// operands come from h
		fromH := true
		for _, a := range call.Call.Args[1:3] {
			if !ii.Slice(a).Roots[fn.Params[1]] {
				fromH = false
			}
		}
		if !fromH && sc.Name() != "AddEdge" {
			continue
		}
		var contained ssa.Value
		if sc.Name() == "AddEdge" {
			nAdd++
			if len(call.Call.Args) >= 4 {
				contained = call.Call.Args[3]
				if _, isConst := contained.(*ssa.Const); isConst {
					bad = append(bad, c.Pos(call.Pos())+": AddEdge is called with constant flags, not the flags of the edge of h")
				}
			}
			for _, a := range call.Call.Args[1:3] {
				for _, ec := range ii.CallsInSlice(a, "Edges") {
					args := ec.Ins.(*ssa.Call).Call.Args
					if len(args) != 4 {
						continue
					}
					okArgs := true
					for _, x := range args[1:3] {
						if k, isC := x.(*ssa.Const); !isC || !k.IsNil() {
							okArgs = false
						}
					}
					if k, isC := args[3].(*ssa.Const); !isC || k.Value == nil || edgeAll == nil || !constant.Compare(k.Value, token.EQL, edgeAll) {
						okArgs = false
					}
					if !okArgs {
						bad = append(bad, c.Pos(ec.Ins.Pos())+": the edges of h are enumerated with a filter (Edges must be called with nil, nil, EdgeAll)")
					}
				}
			}
		} else {
			nStatus++
		}
		for _, cond := range ii.ControlConds() {
			iff := cond.Ins.(*ssa.If)
			if isHeader(iff.Block()) {
				continue
			}
			if contained != nil && cond.Depth() == ii.Depth() {
				if side, ok := containment(iff.Cond, contained); ok {
					// the call must sit on the not-contained side
					other := iff.Block().Succs[1-side]
					if other.Dominates(call.Block()) {
						continue
					}
				}
			}
			pos := iff.Cond.Pos()
			for _, x := range iff.Block().Instrs {
				if !pos.IsValid() && x.Pos().IsValid() {
					pos = x.Pos()
				}
			}
			bad = append(bad, fmt.Sprintf("%s: %s of an element of h is conditional on a test that is neither the enumeration of h nor a containment test of the flags being added", c.Pos(pos), sc.Name()))
		}
	}
	direct := false
	for _, b := range fn.Blocks {
		for _, ins := range b.Instrs {
			if _, ok := ins.(*ssa.MapUpdate); ok {
				direct = true
			}
		}
	}
	if nAdd == 0 {
		bad = append(bad, "no g.AddEdge call")
	}
	if nStatus == 0 {
		bad = append(bad, "no g.MergeNodeStatus call with operands taken from h")
	}
	if direct {
		bad = append(bad, "Merge writes a store directly")
	}
	sort.Strings(bad)
	r.Check(len(bad) == 0, "R15.merge", key, c.Pos(fn.Pos()),
		fmt.Sprintf("Merge adds every edge and raises every status of its argument unconditionally (%d AddEdge, %d MergeNodeStatus call sites over h; only enumeration loops and containment skips control them)", nAdd, nStatus),
		"Merge is not an upper bound of both operands: "+strings.Join(bad, "; "))
}
