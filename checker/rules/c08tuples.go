package rules

import (
	"go/types"
	"sort"
	"strings"

	"golang.org/x/tools/go/ssa"

	"verif/checker/core"
)

// c08tuples (R08.tuples): the index carried by a mark is a position in the
// tuple returned by a CALL. An *ssa.Extract can also project the tuples built
// by Next, Select and the comma-ok forms of Lookup, TypeAssert and receive
// (UnOp); for those the index filter must not apply, or data whose mark carries
// a call-result index is dropped at `v, ok := i.(T)`. The set of tuple
// producers is derived from go/ssa itself (ssa.Value implementers with a CommaOk
// field, plus Next and Select). Decided on the SSA of DoExtract by partial
// evaluation of its type tests on x.Tuple: the index-filtered transfer
// (NewIndex(x.Index)) is reachable for *ssa.Call and unreachable for every
// other producer.
func c08tuples(c *core.Ctx, r *core.Report) {
	r.Explain("R08.tuples: in DoExtract the call-result index filter (NewIndex(x.Index)) is reachable when x.Tuple is an *ssa.Call and unreachable for every other tuple producer of go/ssa (Next, Select and the kinds with a CommaOk field), by partial evaluation of the type tests on x.Tuple.")
	fn := c.Func("analysis/dataflow", "IntraAnalysisState.DoExtract")
	if fn == nil {
		r.Fail("infra.anchor-unresolved", "R08.tuples|analysis/dataflow.IntraAnalysisState.DoExtract", "", "not found")
		return
	}
	r.Analysed("analysis/dataflow.IntraAnalysisState.DoExtract")
	_, valueIface := c.NamedIface(core.SSAPath, "Value")
	if valueIface == nil {
		r.Fail("infra.anchor-unresolved", "R08.tuples|ssa.Value", "", "interface not found")
		return
	}
	var producers []types.Type
	var callT types.Type
	for _, im := range c.Implementers(valueIface) {
		name := core.ShortType(im)
		if name == "*ssa.Call" {
			callT = im
			continue
		}
		isProducer := name == "*ssa.Next" || name == "*ssa.Select"
		if p, ok := im.(*types.Pointer); ok {
			if st, ok := p.Elem().Underlying().(*types.Struct); ok {
				for i := 0; i < st.NumFields(); i++ {
					if st.Field(i).Name() == "CommaOk" {
						isProducer = true
					}
				}
			}
		}
		if isProducer {
			producers = append(producers, im)
		}
	}
	if len(producers) < 5 || callT == nil {
		r.Fail("infra.floor", "R08.tuples|producers", "", "fewer than 5 tuple producers derived from go/ssa")
		return
	}
	targets := core.InlinedInstrs(c, fn, c.Depth(1), func(ins ssa.Instruction) bool {
		call, ok := ins.(*ssa.Call)
		if !ok {
			return false
		}
		sc := call.Call.StaticCallee()
		return sc != nil && sc.Name() == "NewIndex" && ins.Parent() == fn
	})
	if len(targets) == 0 {
		r.OK("R08.tuples", "analysis/dataflow.IntraAnalysisState.DoExtract|no-index-filter", c.Pos(fn.Pos()), "DoExtract applies no index filter at all (over-approximation)")
		return
	}
	entry := fn.Blocks[0]
	reach := func(k types.Type) bool {
		for _, t := range targets {
			if t.ReachableForKind(entry, "Tuple", k) {
				return true
			}
		}
		return false
	}
	var bad []string
	for _, k := range producers {
		if reach(k) {
			bad = append(bad, core.ShortType(k))
		}
	}
	sort.Strings(bad)
	r.Check(len(bad) == 0, "R08.tuples", "analysis/dataflow.IntraAnalysisState.DoExtract|index-filter-only-for-calls", c.Pos(fn.Pos()),
		"the call-result index filter is not applied to tuples built by Next, Select, or comma-ok Lookup / TypeAssert / receive",
		"the call-result index filter (NewIndex(x.Index)) is applied when the tuple is built by "+strings.Join(bad, ", ")+": a mark that carries the index of a call result (data returned as result #1 of a call) is dropped at `v, ok := i.(T)` / `v, ok := <-ch` and the flow is lost")
	r.Check(reach(callT), "R08.tuples", "analysis/dataflow.IntraAnalysisState.DoExtract|index-filter-for-calls", c.Pos(fn.Pos()),
		"tuples returned by calls are projected by index", "control failed: the index-filtered transfer is not reachable for *ssa.Call either (rule cannot tell the cases apart)")
}
