package rules

import (
	"go/types"
	"sort"
	"strings"

	"golang.org/x/tools/go/ssa"

	"verif/checker/core"
)

// c04matchonly (R04.matchonly): whether a candidate field matches a
// specification field is decided by the compiled regular expression
// (MatchString) or, without compiled regexes, by string equality - nothing
// else. In the cone of equalOnNonEmptyFields (helpers inlined) no other
// boolean predicate of a string (strings.Contains / HasPrefix / EqualFold ...,
// bytes.*, path.Match) receives a value derived from the candidate identifier:
// a "fast path" for literal patterns is not equivalent to the regular
// expression (`^sink$` has the complete literal prefix "sink" and would match
// "mysinker").
func c04matchonly(c *core.Ctx, r *core.Report) {
	r.Explain("R04.matchonly: in the cone of config.(*CodeIdentifier).equalOnNonEmptyFields (helpers inlined) no boolean string predicate of packages strings / bytes / path / path/filepath receives a value derived from the candidate identifier: candidate fields are judged by MatchString or == only.")
	fn := c.Func("analysis/config", "CodeIdentifier.equalOnNonEmptyFields")
	if fn == nil {
		r.Fail("infra.anchor-unresolved", "R04.matchonly|analysis/config.CodeIdentifier.equalOnNonEmptyFields", "", "not found")
		return
	}
	cand := fn.Params[0]
	var bad []string
	nMatch := 0
	for _, ii := range core.InlinedInstrs(c, fn, c.Depth(2), func(ins ssa.Instruction) bool {
		call, ok := ins.(*ssa.Call)
		return ok && call.Call.StaticCallee() != nil
	}) {
		call := ii.Ins.(*ssa.Call)
		sc := call.Call.StaticCallee()
		if sc.Name() == "MatchString" {
			nMatch++
			continue
		}
		if sc.Pkg == nil {
			continue
		}
		switch sc.Pkg.Pkg.Path() {
		case "strings", "bytes", "path", "path/filepath":
		default:
			continue
		}
		res := sc.Signature.Results()
		isPred := false
		for i := 0; i < res.Len(); i++ {
			if b, ok := types.Unalias(res.At(i).Type()).Underlying().(*types.Basic); ok && b.Kind() == types.Bool {
				isPred = true
			}
		}
		if !isPred {
			continue
		}
		for _, a := range call.Call.Args {
			if ii.Slice(a).Roots[cand] {
				bad = append(bad, c.Pos(call.Pos())+" ("+sc.Pkg.Pkg.Path()+"."+sc.Name()+")")
				break
			}
		}
	}
	if nMatch == 0 {
		r.Fail("infra.anchor-unresolved", "R04.matchonly|MatchString", c.Pos(fn.Pos()), "no MatchString call in the cone of equalOnNonEmptyFields")
		return
	}
	sort.Strings(bad)
	bad = dedupStrings(bad)
	r.Check(len(bad) == 0, "R04.matchonly", "analysis/config.equalOnNonEmptyFields|candidate-judged-by-regex-or-equality-only", c.Pos(fn.Pos()),
		"candidate fields are judged by MatchString or == only",
		"a candidate field is judged by another string predicate: "+strings.Join(bad, ", ")+" - a shortcut for 'literal' patterns is not equivalent to the compiled regular expression (anchors: `^sink$` has the complete literal prefix \"sink\"), so locations that do not match the specification are identified, or matching ones missed")
}
