package rules

import (
	"fmt"

	"golang.org/x/tools/go/ssa"

	"verif/checker/core"
)

// c14stale (R14.stale): the per-block state of the escape fixpoint
// (functionAnalysisState maps keyed by the block being processed) is what the
// locality classification is later replayed from. ProcessBlock may leave a
// function exit without storing ea.F[bb] = V only when the skipped store is
// redundant, i.e. the exit is taken because ea.F[bb] already Matches V - the
// same field, the same value. A store skipped under a test of ANOTHER field or
// value (an entry-graph cache skipped because the END graph is unchanged) leaves
// a stale entry: accesses are classified against a graph in which an object
// leaked on a late path is still local.
func staleRule(c *core.Ctx, r *core.Report, rule string) {
	r.Explain(rule + ": in escape.(*functionAnalysisState).ProcessBlock a store ea.F[bb] = V of per-block fixpoint state may be skipped by a function exit only when that exit is taken because ea.F[bb].Matches(V) (same field, same value).")
	fn := c.Func("analysis/escape", "functionAnalysisState.ProcessBlock")
	if fn == nil || len(fn.Params) < 2 {
		r.Fail("infra.anchor-unresolved", rule+"|analysis/escape.functionAnalysisState.ProcessBlock", "", "not found")
		return
	}
	r.Analysed("analysis/escape.functionAnalysisState.ProcessBlock")
	ea, bb := fn.Params[0], fn.Params[1]
	rp := core.NewReadPaths(c, nil)
	_ = rp
	n := 0
	for _, b := range fn.Blocks {
		for _, ins := range b.Instrs {
			mu, ok := ins.(*ssa.MapUpdate)
			if !ok || mu.Key != ssa.Value(bb) {
				continue
			}
			ii := core.InlinedInstr{Ins: mu}
			field, root := c.PathAndRootOf(mu.Map)
			if root != ssa.Value(ea) || field == "" {
				continue
			}
			_ = ii
			n++
			// exits reachable from the entry without executing the store
			seen := map[*ssa.BasicBlock]bool{}
			st := []*ssa.BasicBlock{fn.Blocks[0]}
			var bad []string
			for len(st) > 0 {
				x := st[len(st)-1]
				st = st[:len(st)-1]
				if seen[x] || x == b {
					continue
				}
				seen[x] = true
				if _, isRet := x.Instrs[len(x.Instrs)-1].(*ssa.Return); isRet {
					// the guard of this exit
					justified := false
					if len(x.Preds) == 1 {
						a := x.Preds[0]
						if iff, isIf := a.Instrs[len(a.Instrs)-1].(*ssa.If); isIf && a.Succs[0] == x {
							if call, isCall := iff.Cond.(*ssa.Call); isCall {
								if sc := call.Call.StaticCallee(); sc != nil && sc.Name() == "Matches" && len(call.Call.Args) == 2 {
									for _, pair := range [][2]ssa.Value{{call.Call.Args[0], call.Call.Args[1]}, {call.Call.Args[1], call.Call.Args[0]}} {
										old, nw := pair[0], pair[1]
										of, oroot := c.PathAndRootOf(old)
										if nw == mu.Value && oroot == ssa.Value(ea) && of == field {
											justified = true
										}
									}
								}
							}
						}
					}
					if !justified {
						bad = append(bad, c.Pos(x.Instrs[len(x.Instrs)-1].Pos()))
					}
					continue
				}
				st = append(st, x.Succs...)
			}
			r.Check(len(bad) == 0, rule, "analysis/escape.functionAnalysisState.ProcessBlock|"+field+"[bb]", c.Pos(mu.Pos()),
				"the only exits that skip the store are taken because the stored entry already matches the new value",
				fmt.Sprintf("ea.%s[bb] is not stored on a path that leaves the function at %v, and that exit is not guarded by ea.%s[bb].Matches(<the value to store>): the entry is left stale when the block is re-processed with a larger input (an object leaked on a late path is still local in the graph the locality classification is replayed from)", field, bad, field))
		}
	}
	if n == 0 {
		r.Fail(rule, "analysis/escape.functionAnalysisState.ProcessBlock|per-block-state", c.Pos(fn.Pos()), "ProcessBlock stores no per-block state keyed by the block: the fixpoint discipline this rule decides is gone")
	}
}
