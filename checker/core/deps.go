package core

import (
	"golang.org/x/tools/go/ssa"
)

// DepEngine computes interprocedural data dependences of SSA values on the
// "roots" of their function: parameters, free variables and globals.
//
//   - every instruction depends on its operands;
//   - a local allocation depends on every value stored into it (or into an
//     address derived from it), on the arguments of every call that receives
//     its address, and on the arguments of every call that receives a closure
//     capturing it (the callee may write it through the closure);
//   - the result of a static call to a repository function with a body depends
//     only on the arguments for the parameters the callee's results depend on
//     (callee summaries, memoised, recursion falls back to all arguments);
//     any other call depends on all its operands.
//
// Control dependence is not followed. The result over-approximates data
// dependence (never misses a data dependence within the stated rules).
type DepEngine struct {
	c       *Ctx
	retMemo map[*ssa.Function]map[int]bool // callee param indices (−1−i for free var i, 1<<20 for globals) its results depend on
	busy    map[*ssa.Function]bool
}

// NewDepEngine returns an engine for the context.
func NewDepEngine(c *Ctx) *DepEngine {
	return &DepEngine{c: c, retMemo: map[*ssa.Function]map[int]bool{}, busy: map[*ssa.Function]bool{}}
}

// DepSet is a set of roots (*ssa.Parameter, *ssa.FreeVar, *ssa.Global).
type DepSet map[ssa.Value]bool

// Has reports whether the root is in the set.
func (d DepSet) Has(v ssa.Value) bool { return d[v] }

// Deps returns the roots v depends on.
func (e *DepEngine) Deps(v ssa.Value) DepSet {
	res := DepSet{}
	e.walk(v, res, map[ssa.Value]bool{})
	return res
}

func (e *DepEngine) walk(v ssa.Value, res DepSet, seen map[ssa.Value]bool) {
	if v == nil || seen[v] || len(seen) > 4000 {
		return
	}
	seen[v] = true
	switch x := v.(type) {
	case *ssa.Parameter, *ssa.FreeVar, *ssa.Global:
		res[v] = true
		return
	case *ssa.Const, *ssa.Function, *ssa.Builtin:
		return
	case *ssa.Alloc:
		e.allocDeps(x, x, res, seen, 0)
		return
	case *ssa.MakeMap, *ssa.MakeSlice:
		// contents of a locally built map / slice (falls through to the operands as well)
		e.allocDeps(nil, x, res, seen, 0)
	case *ssa.Call:
		if sc := x.Call.StaticCallee(); sc != nil && sc.Blocks != nil && e.c.IsRepoFunc(sc) {
			if sum, ok := e.summary(sc); ok {
				for idx := range sum {
					switch {
					case idx >= 0 && idx < len(x.Call.Args):
						e.walk(x.Call.Args[idx], res, seen)
					case idx < 0:
						// free variable of the callee: the callee is a closure value; walk the closure
						e.walk(x.Call.Value, res, seen)
					}
				}
				for g := range e.globalsOf(sc) {
					res[g] = true
				}
				return
			}
		}
	}
	if ins, ok := v.(ssa.Instruction); ok {
		var rands []*ssa.Value
		for _, op := range ins.Operands(rands) {
			if *op != nil {
				e.walk(*op, res, seen)
			}
		}
	}
}

// allocDeps adds the dependences of the contents of a local allocation.
func (e *DepEngine) allocDeps(root *ssa.Alloc, addr ssa.Value, res DepSet, seen map[ssa.Value]bool, depth int) {
	if depth > 6 || addr.Referrers() == nil {
		return
	}
	for _, ref := range *addr.Referrers() {
		switch r := ref.(type) {
		case *ssa.Store:
			if r.Addr == addr {
				e.walk(r.Val, res, seen)
			}
		case *ssa.FieldAddr:
			if r.X == addr {
				e.allocDeps(root, r, res, seen, depth+1)
			}
		case *ssa.IndexAddr:
			if r.X == addr {
				e.allocDeps(root, r, res, seen, depth+1)
			}
		case *ssa.Slice:
			if r.X == addr {
				e.allocDeps(root, r, res, seen, depth+1)
			}
		case *ssa.MapUpdate:
			if r.Map == addr {
				e.walk(r.Key, res, seen)
				e.walk(r.Value, res, seen)
			}
		case *ssa.MakeClosure:
			// captured: if the closure body writes the cell, whoever receives (or is) the closure may write it,
			// with values depending on what that callee is given and on the closure's other bindings
			if !closureWrites(r, addr) {
				continue
			}
			if r.Referrers() != nil {
				for _, cr := range *r.Referrers() {
					if ci, ok := cr.(ssa.CallInstruction); ok {
						for _, a := range ci.Common().Args {
							if a != ssa.Value(r) {
								e.walk(a, res, seen)
							}
						}
						if ci.Common().Value != ssa.Value(r) {
							e.walk(ci.Common().Value, res, seen)
						}
					}
				}
			}
			for _, b := range r.Bindings {
				if b != addr {
					e.walk(b, res, seen)
				}
			}
		case ssa.CallInstruction:
			// address passed to a call: the callee may write through it (builtins other than copy do not)
			if bi, ok := r.Common().Value.(*ssa.Builtin); ok && bi.Name() != "copy" {
				continue
			}
			for _, a := range r.Common().Args {
				if a != addr {
					e.walk(a, res, seen)
				}
			}
			e.walk(r.Common().Value, res, seen)
		}
	}
}

const globalIdx = 1 << 20

// summary returns the indices of the callee's parameters its results depend on.
func (e *DepEngine) summary(fn *ssa.Function) (map[int]bool, bool) {
	if s, ok := e.retMemo[fn]; ok {
		return s, true
	}
	if e.busy[fn] || len(e.busy) > 8 {
		return nil, false
	}
	e.busy[fn] = true
	defer delete(e.busy, fn)
	sum := map[int]bool{}
	for _, b := range fn.Blocks {
		ret, ok := b.Instrs[len(b.Instrs)-1].(*ssa.Return)
		if !ok {
			continue
		}
		for _, rv := range ret.Results {
			for root := range e.Deps(rv) {
				switch r := root.(type) {
				case *ssa.Parameter:
					for i, p := range fn.Params {
						if p == r {
							sum[i] = true
						}
					}
				case *ssa.FreeVar:
					sum[-1] = true
				case *ssa.Global:
					sum[globalIdx] = true
				}
			}
		}
	}
	e.retMemo[fn] = sum
	return sum, true
}

func (e *DepEngine) globalsOf(fn *ssa.Function) DepSet {
	res := DepSet{}
	if s := e.retMemo[fn]; s != nil && s[globalIdx] {
		for _, b := range fn.Blocks {
			if ret, ok := b.Instrs[len(b.Instrs)-1].(*ssa.Return); ok {
				for _, rv := range ret.Results {
					for root := range e.Deps(rv) {
						if g, ok := root.(*ssa.Global); ok {
							res[g] = true
						}
					}
				}
			}
		}
	}
	return res
}

// ParamIndex returns the index of p among fn's parameters, or -1.
func ParamIndex(fn *ssa.Function, v ssa.Value) int {
	for i, p := range fn.Params {
		if ssa.Value(p) == v {
			return i
		}
	}
	return -1
}

// closureWrites: does the closure created by mc store into the free variable bound to cell?
func closureWrites(mc *ssa.MakeClosure, cell ssa.Value) bool {
	fn, ok := mc.Fn.(*ssa.Function)
	if !ok {
		return true
	}
	for i, b := range mc.Bindings {
		if b != cell || i >= len(fn.FreeVars) {
			continue
		}
		fv := fn.FreeVars[i]
		if fv.Referrers() == nil {
			continue
		}
		for _, ref := range *fv.Referrers() {
			switch x := ref.(type) {
			case *ssa.Store:
				if x.Addr == ssa.Value(fv) {
					return true
				}
			case *ssa.MakeClosure, ssa.CallInstruction, *ssa.FieldAddr, *ssa.IndexAddr:
				return true // escapes further or is written through a derived address: assume written
			}
		}
	}
	return false
}
