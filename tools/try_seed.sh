#!/bin/bash
# usage: try_seed.sh <patch.diff> [property ...]   -- applies the patch to /repo, runs the checks, reverts.
set -u
patch=$1; shift
props=${@:-$(python3 -c "import json;print(' '.join(c['property_id'] for c in json.load(open('/verif/MANIFEST.json'))['checks']))")}
cd /repo || exit 2
if ! git diff --quiet; then echo "/repo has uncommitted changes; abort"; exit 2; fi
git apply "$patch" || { echo "patch does not apply"; exit 2; }
export GOFLAGS=-mod=mod GOPROXY=off GOSUMDB=off GOTOOLCHAIN=local
go build ./... 2>&1 | tail -3
for p in $props; do
  out=$(/verif/bin/argotcheck -property $p -tier quick -verif /tmp/seedrun 2>&1)
  echo "== $p: $(echo "$out" | grep -c '^  violation') violation(s)"
  echo "$out" | grep '^  violation' | cut -c1-260
done
git checkout -- . && git clean -fdq -- . >/dev/null 2>&1
git status --short | head -3
