#!/bin/bash
# usage: one_seed.sh <patch.diff> <label> <property>  -- prints one CAUGHT/MISSED line
patch=$1; label=$2; prop=$3
out=$(/verif/tools/try_seed.sh $patch $prop 2>&1)
n=$(echo "$out" | grep -c '^  violation')
if echo "$out" | grep -q "does not apply"; then echo "$label: PATCH DOES NOT APPLY"; exit 0; fi
if ! echo "$out" | grep -q "^== $prop:"; then echo "$label: ERROR (check did not run) $(echo "$out" | tail -n 2 | tr "\n" " " | cut -c1-200)"; exit 0; fi
if [ "$n" -gt 0 ]; then echo "$label: CAUGHT ($n) $(echo "$out" | grep '^  violation' | head -1 | cut -c13-120)"; else echo "$label: MISSED"; fi
