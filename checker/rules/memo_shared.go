package rules

import (
	"fmt"
	"sort"
	"strings"
	"sync"

	"golang.org/x/tools/go/ssa"

	"verif/checker/core"
)

// per-run singletons: a memoised value may depend on them without the key doing so
var memoSingletonTypes = []string{"ssa.Program", "dataflow.AnalyzerState", "config.Config", "config.LogGroup", "token.FileSet", "pointer.analysis"}

func memoExempt(root ssa.Value) bool {
	if _, ok := root.(*ssa.Global); ok {
		return true // package-level counters / tables, not an input of the call
	}
	t := core.ShortType(root.Type())
	for _, s := range memoSingletonTypes {
		if strings.HasSuffix(strings.TrimPrefix(t, "*"), s) {
			return true
		}
	}
	return false
}

var (
	memoControlOnce sync.Once
	memoControlErr  string
)

// memoControl runs the memo-key engine on the embedded positive controls.
func memoControl(c *core.Ctx) string {
	memoControlOnce.Do(func() {
		p, err := core.Fixture("memo")
		if err != nil {
			memoControlErr = "fixture not loadable: " + err.Error()
			return
		}
		fns := core.FixtureFuncs(p)
		e := core.NewDepEngine(c)
		want := map[string]string{"cache.Incomplete": "b", "cache.Complete": "", "cache.ViaCallback": "b", "ByTag": "s.{", "resolver.Concrete": "m.{"}
		for name, gap := range want {
			fn := fns[name]
			if fn == nil {
				memoControlErr = "fixture function " + name + " missing"
				return
			}
			ms := core.FindMemos(fn)
			// (an outer level that stores a fresh inner map is a memo too, with nothing to report)
			var withVal []core.Memo
			for _, m := range ms {
				if _, fresh := m.Val.(*ssa.MakeMap); !fresh {
					withVal = append(withVal, m)
				}
			}
			ms = withVal
			if len(ms) != 1 {
				memoControlErr = fmt.Sprintf("fixture %s: %d memo patterns detected, want 1", name, len(ms))
				return
			}
			gaps := core.MemoKeyGaps(e, ms[0], memoExempt)
			got := ""
			if len(gaps) > 0 {
				got = strings.Fields(gaps[0])[0]
			}
			if strings.HasSuffix(gap, "{") && strings.HasPrefix(got, gap) {
				got = gap
			}
			if got != gap || len(gaps) > 1 {
				memoControlErr = fmt.Sprintf("fixture %s: gaps %v, want [%s]", name, gaps, gap)
				return
			}
		}
	})
	return memoControlErr
}

// memoRule: in every function selected by scope, a get-or-compute cache (a
// lookup in a persistent map / typeutil.Map / sync.Map whose hit is returned,
// and an update of the same container with a value not built from the hit)
// stores only values whose inputs all contribute to the key: every parameter
// or captured variable the stored value depends on (interprocedural data
// dependence, core.DepEngine) is one the key depends on too, is the container's
// own root, or is a per-run singleton.
func memoRule(c *core.Ctx, r *core.Report, rule string, scope func(fn *ssa.Function, rel string) bool, consequence string) {
	r.Explain(rule + ": every get-or-compute cache in scope (a lookup in a persistent map / typeutil.Map / sync.Map whose hit is returned, and an update of the same container with a value not built from the hit; two-level caches included) stores only values whose inputs contribute to the key - at parameter level, at field level (key built from p.f while the value reads other fields of p or p as a whole) and for getter projections (m.Name() does not cover m.Pkg()); per-run singletons are exempt; positive controls from an embedded fixture are re-run on every check.")
	if msg := memoControl(c); msg != "" {
		r.Fail("infra.control", rule+"|memo-fixture", "", "the memo-key engine no longer passes its positive controls: "+msg)
		return
	}
	r.OK(rule, "engine|positive-controls", "", "embedded fixture: incomplete key reported (direct and through a callback), complete key not reported")
	e := core.NewDepEngine(c)
	n := 0
	for _, fn := range c.RepoFunctions() {
		file := c.Fset.Position(fn.Pos()).Filename
		if strings.HasSuffix(file, "_test.go") || strings.Contains(file, "/testdata/") {
			continue
		}
		if !scope(fn, c.FuncPkgRel(fn)) {
			continue
		}
		seen := map[string]int{}
		for _, m := range core.FindMemos(fn) {
			n++
			key := c.FuncName(fn) + "|" + m.Container
			seen[key]++
			if seen[key] > 1 {
				key = fmt.Sprintf("%s#%d", key, seen[key])
			}
			gaps := core.MemoKeyGaps(e, m, memoExempt)
			sort.Strings(gaps)
			r.Check(len(gaps) == 0, rule, key, c.Pos(m.Update.Pos()),
				"the cached value depends only on inputs that contribute to the cache key",
				fmt.Sprintf("the value cached in %s depends on %s, which does not contribute to the key %s: a later call with a different value of it gets the stale result; %s", m.Container, strings.Join(gaps, ", "), core.DescribeValue(m.KeyU, 0), consequence))
		}
	}
	r.Extra[rule+"_memo_sites"] = n
}
