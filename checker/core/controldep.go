package core

import (
	"golang.org/x/tools/go/ssa"
)

// Loop is a natural loop of a function's CFG.
type Loop struct {
	Header *ssa.BasicBlock
	Body   map[*ssa.BasicBlock]bool
}

// Loops returns the natural loops of fn (loops sharing a header are merged).
func Loops(fn *ssa.Function) []*Loop {
	byHeader := map[*ssa.BasicBlock]*Loop{}
	var res []*Loop
	for _, t := range fn.Blocks {
		for _, h := range t.Succs {
			if !h.Dominates(t) {
				continue
			}
			l := byHeader[h]
			if l == nil {
				l = &Loop{Header: h, Body: map[*ssa.BasicBlock]bool{h: true}}
				byHeader[h] = l
				res = append(res, l)
			}
			st := []*ssa.BasicBlock{t}
			for len(st) > 0 {
				x := st[len(st)-1]
				st = st[:len(st)-1]
				if l.Body[x] {
					continue
				}
				l.Body[x] = true
				st = append(st, x.Preds...)
			}
		}
	}
	return res
}

// ControlDepsWithin returns the If-terminated blocks, inside the outermost loop
// containing b, on which b is control dependent, excluding loop headers of
// loops that contain b (their condition is the iteration itself). It answers:
// "within one sweep of the enclosing loop nest, which decisions other than the
// iteration conditions determine whether b executes?" ok is false if b is in
// no loop.
func ControlDepsWithin(b *ssa.BasicBlock) (deps []*ssa.BasicBlock, ok bool) {
	fn := b.Parent()
	var outer *Loop
	headers := map[*ssa.BasicBlock]bool{}
	for _, l := range Loops(fn) {
		if !l.Body[b] {
			continue
		}
		headers[l.Header] = true
		if outer == nil || len(l.Body) > len(outer.Body) {
			outer = l
		}
	}
	if outer == nil {
		return nil, false
	}
	pd := PostDom(fn)
	direct := func(b *ssa.BasicBlock) []*ssa.BasicBlock {
		var res []*ssa.BasicBlock
		for _, a := range fn.Blocks {
			if !outer.Body[a] || len(a.Succs) != 2 {
				continue
			}
			if _, isIf := a.Instrs[len(a.Instrs)-1].(*ssa.If); !isIf {
				continue
			}
			// b is control dependent on a iff b post-dominates one successor of a (or is it) but not a itself
			if a != b && pd[a.Index][b.Index] {
				continue
			}
			for _, s := range a.Succs {
				if s == b || pd[s.Index][b.Index] {
					res = append(res, a)
					break
				}
			}
		}
		return res
	}
	// transitive closure: the decisions that determine whether the enclosing iterations themselves happen count too
	seen := map[*ssa.BasicBlock]bool{b: true}
	work := []*ssa.BasicBlock{b}
	for len(work) > 0 {
		x := work[len(work)-1]
		work = work[:len(work)-1]
		for _, a := range direct(x) {
			if seen[a] {
				continue
			}
			seen[a] = true
			work = append(work, a)
			if !headers[a] {
				deps = append(deps, a)
			}
		}
	}
	return deps, true
}

// ControlConds returns the If instructions on which block b is (transitively)
// control dependent in its function.
func ControlConds(b *ssa.BasicBlock) []*ssa.If {
	fn := b.Parent()
	pd := PostDom(fn)
	direct := func(x *ssa.BasicBlock) []*ssa.BasicBlock {
		var res []*ssa.BasicBlock
		for _, a := range fn.Blocks {
			if len(a.Succs) != 2 {
				continue
			}
			if _, isIf := a.Instrs[len(a.Instrs)-1].(*ssa.If); !isIf {
				continue
			}
			if a != x && pd[a.Index][x.Index] {
				continue
			}
			for _, s := range a.Succs {
				if s == x || pd[s.Index][x.Index] {
					res = append(res, a)
					break
				}
			}
		}
		return res
	}
	var res []*ssa.If
	seen := map[*ssa.BasicBlock]bool{b: true}
	work := []*ssa.BasicBlock{b}
	for len(work) > 0 {
		x := work[len(work)-1]
		work = work[:len(work)-1]
		for _, a := range direct(x) {
			if seen[a] {
				continue
			}
			seen[a] = true
			work = append(work, a)
			res = append(res, a.Instrs[len(a.Instrs)-1].(*ssa.If))
		}
	}
	return res
}
