package rules

import (
	"fmt"
	"sync"

	"golang.org/x/tools/go/ssa"

	"verif/checker/core"
)

// referrersCalls: calls of a method named Referrers in fn or in the functions it statically calls (same module).
func referrersCalls(c *core.Ctx, fn *ssa.Function, sameModule func(*ssa.Function) bool) []ssa.Instruction {
	var res []ssa.Instruction
	seen := map[*ssa.Function]bool{}
	var visit func(f *ssa.Function, d int)
	visit = func(f *ssa.Function, d int) {
		if seen[f] || d > 3 {
			return
		}
		seen[f] = true
		for _, b := range f.Blocks {
			for _, ins := range b.Instrs {
				ci, ok := ins.(ssa.CallInstruction)
				if !ok {
					continue
				}
				cc := ci.Common()
				if cc.IsInvoke() && cc.Method.Name() == "Referrers" {
					res = append(res, ins)
				}
				if sc := cc.StaticCallee(); sc != nil {
					if sc.Name() == "Referrers" {
						res = append(res, ins)
					} else if sc.Blocks != nil && sameModule(sc) {
						visit(sc, d+1)
					}
				}
			}
		}
		for _, a := range f.AnonFuncs {
			visit(a, d+1)
		}
	}
	visit(fn, 0)
	return res
}

var (
	usesControlOnce sync.Once
	usesControlErr  string
)

// c04uses (R04.uses): whether a code location is a source / sink / ... is a
// function of the instruction itself (its operands, types, position) and of
// the specification - the statement says "exactly when ... matched by ... some
// specification". The classifiers must therefore not consult how the
// instruction's result is USED (ssa Referrers): a filter such as "a field
// address counts only if it is dereferenced in the same function" silently
// drops matching locations whose value is handed to a call.
func c04uses(c *core.Ctx, r *core.Report) {
	usesControlOnce.Do(func() {
		p, err := core.Fixture("uses")
		if err != nil {
			usesControlErr = err.Error()
			return
		}
		fns := core.FixtureFuncs(p)
		all := func(*ssa.Function) bool { return true }
		if fns["Classify"] == nil || fns["ClassifyPure"] == nil || len(referrersCalls(c, fns["Classify"], all)) != 1 || len(referrersCalls(c, fns["ClassifyPure"], all)) != 0 {
			usesControlErr = "fixture: expected 1 Referrers call through the helper of Classify and none in ClassifyPure"
		}
	})
	if usesControlErr != "" {
		r.Fail("infra.control", "R04.uses|uses-fixture", "", "positive control failed: "+usesControlErr)
		return
	}
	for _, s := range []struct{ rel, fn string }{
		{"internal/analysisutil", "IsEntrypointNode"}, {"analysis/taint", "IsMatchingCodeIDWithCallee"}, {"analysis/taint", "isMatchingCodeID"},
	} {
		fn := c.Func(s.rel, s.fn)
		key := s.rel + "." + s.fn + "|independent-of-uses"
		if fn == nil {
			r.Fail("infra.anchor-unresolved", "R04.uses|"+s.rel+"."+s.fn, "", "classifier not found")
			continue
		}
		r.Analysed(s.rel + "." + s.fn)
		calls := referrersCalls(c, fn, c.IsRepoFunc)
		pos := c.Pos(fn.Pos())
		if len(calls) > 0 {
			pos = c.Pos(calls[0].Pos())
		}
		r.Check(len(calls) == 0, "R04.uses", key, pos, "the classifier decides from the instruction and the specification only",
			fmt.Sprintf("the classifier consults the uses of the instruction (%d call(s) of Referrers in it or its helpers): a location that matches the specification is identified or not depending on how its value is used (e.g. a field address passed to a call instead of being dereferenced is silently missed)", len(calls)))
	}
}
