package rules

import (
	"fmt"
	"go/types"
	"sort"
	"strings"

	"golang.org/x/tools/go/ssa"

	"verif/checker/core"
)

// c11oneobject (R11.oneobject): one allocation site, one abstract object. The
// constraint generator labels every abstract object with the SSA value that
// allocates it (the data argument of endObject / makeTagged). Objects labelled
// with values of one SSA kind are created in ONE function of the generator:
// either the singleton table of objectNode (Alloc, MakeSlice, MakeMap, ...) or
// the gen function of the kind (genConv, genAppend). If two functions each
// allocate an object for the same instruction, pointers derived through one
// (element addresses resolved at generation time) and through the other (the
// value flowing through parameters, phis, fields) have disjoint points-to sets
// although they are equal at run time. Function objects are exempt: one per
// contour by design.
func c11oneobject(c *core.Ctx, r *core.Report) {
	r.Explain("R11.oneobject: in internal/pointer (reflection modelling aside) the calls of endObject whose label - resolved through helper parameters to the function supplying it - has static type *ssa.K are grouped by K; for every K but Function all of them sit in one function.")
	sites := map[string]map[string]string{} // kind -> function -> position
	n := 0
	inScope := func(fn *ssa.Function) bool {
		if c.FuncPkgRel(fn) != "internal/pointer" {
			return false
		}
		file := c.Fset.Position(fn.Pos()).Filename
		return !strings.HasSuffix(file, "_test.go") && !strings.HasSuffix(file, "reflect.go")
	}
	// static call sites of the functions of the package
	callers := map[*ssa.Function][]*ssa.Call{}
	for _, fn := range c.RepoFunctions() {
		if !inScope(fn) {
			continue
		}
		for _, b := range fn.Blocks {
			for _, ins := range b.Instrs {
				if call, ok := ins.(*ssa.Call); ok {
					if sc := call.Call.StaticCallee(); sc != nil && inScope(sc) {
						callers[sc] = append(callers[sc], call)
					}
				}
			}
		}
	}
	// the label resolved to the function that supplies a value of static type *ssa.K (through helper parameters)
	var resolve func(fn *ssa.Function, v ssa.Value, at ssa.Instruction, depth int)
	resolve = func(fn *ssa.Function, v ssa.Value, at ssa.Instruction, depth int) {
		if mi, ok := v.(*ssa.MakeInterface); ok {
			v = mi.X
		}
		isKind := false
		if pt, ok := types.Unalias(v.Type()).(*types.Pointer); ok {
			if nm, ok := types.Unalias(pt.Elem()).(*types.Named); ok && nm.Obj().Pkg() != nil && nm.Obj().Pkg().Path() == "golang.org/x/tools/go/ssa" {
				isKind = true
			}
		}
		if p, ok := v.(*ssa.Parameter); ok && !isKind && depth < 3 {
			if i := core.ParamIndex(fn, p); i >= 0 {
				for _, call := range callers[fn] {
					if i < len(call.Call.Args) {
						resolve(call.Parent(), call.Call.Args[i], call, depth+1)
					}
				}
			}
			return
		}
		pt, ok := types.Unalias(v.Type()).(*types.Pointer)
		if !ok {
			return
		}
		nm, ok := types.Unalias(pt.Elem()).(*types.Named)
		if !ok || nm.Obj().Pkg() == nil || nm.Obj().Pkg().Path() != "golang.org/x/tools/go/ssa" {
			return
		}
		n++
		k := nm.Obj().Name()
		if sites[k] == nil {
			sites[k] = map[string]string{}
		}
		sites[k][c.FuncName(fn)] = c.Pos(at.Pos())
	}
	for _, fn := range c.RepoFunctions() {
		if !inScope(fn) {
			continue
		}
		for _, b := range fn.Blocks {
			for _, ins := range b.Instrs {
				call, ok := ins.(*ssa.Call)
				if !ok {
					continue
				}
				sc := call.Call.StaticCallee()
				if sc == nil || sc.Name() != "endObject" || len(call.Call.Args) != 4 {
					continue
				}
				resolve(fn, call.Call.Args[3], call, 0)
			}
		}
	}
	if n < 6 {
		r.Fail("infra.anchor-unresolved", "R11.oneobject|allocation-sites", "", fmt.Sprintf("expected at least 6 labelled allocation sites, found %d", n))
		return
	}
	var kinds []string
	for k := range sites {
		kinds = append(kinds, k)
	}
	sort.Strings(kinds)
	for _, k := range kinds {
		if k == "Function" {
			continue
		}
		var fs []string
		for f, pos := range sites[k] {
			fs = append(fs, f+" ("+pos+")")
		}
		sort.Strings(fs)
		r.Check(len(fs) == 1, "R11.oneobject", "internal/pointer|objects-labelled|*ssa."+k, "", "allocated in one function: "+fs[0],
			"abstract objects labelled with a *ssa."+k+" are allocated in several functions: "+strings.Join(fs, ", ")+" - one allocation site gets two objects, and pointers derived through one and through the other never alias in the analysis although they are equal at run time")
	}
}
