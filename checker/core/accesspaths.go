package core

import (
	"go/constant"
	"go/token"
	"go/types"
	"strings"

	"golang.org/x/tools/go/ssa"
)

// ReadPaths computes the field access paths read in the backward data slice of
// a value, inlining static calls to repository functions (context-sensitive:
// a callee parameter is resolved to the argument of the call being inlined).
// A path is the dotted list of field names from the root value, e.g.
// "NodeWithTrace.Trace.key" for `v.NodeWithTrace.Trace.key`. Calls that cannot
// be inlined (no body, dynamic, depth bound) contribute the slices of all
// their arguments. Calls records the names of all functions / methods called in
// the slice (inlined or not).
//
// The slice follows operands, contents of local allocations (stores into
// them), and nothing else (no control dependence, no heap aliasing).
type ReadPaths struct {
	c     *Ctx
	Paths map[string]bool
	Calls map[string]bool
	Roots map[*ssa.Parameter]bool // parameters of the outermost function reached by the slice
	seen  map[rpKey]bool
	n     int
}

type rpFrame struct {
	call   ssa.CallInstruction // nil for frames created by value slicing
	args   []ssa.Value
	callee *ssa.Function
	parent *rpFrame
	depth  int
}

type rpKey struct {
	v  ssa.Value
	fr *rpFrame
}

// NewReadPaths slices v.
func NewReadPaths(c *Ctx, v ssa.Value) *ReadPaths {
	return newReadPathsAt(c, v, nil)
}

func newReadPathsAt(c *Ctx, v ssa.Value, fr *rpFrame) *ReadPaths {
	r := &ReadPaths{c: c, Paths: map[string]bool{}, Calls: map[string]bool{}, Roots: map[*ssa.Parameter]bool{}, seen: map[rpKey]bool{}}
	r.walk(v, fr)
	return r
}

// InlinedCompare is an ordering comparison found in a function or, with the
// calling context recorded, in a repository function it statically calls.
type InlinedCompare struct {
	Cmp   *ssa.BinOp
	frame *rpFrame
	c     *Ctx
}

// Side slices one operand (0: X, 1: Y) in the comparison's calling context.
func (ic InlinedCompare) Side(i int) *ReadPaths {
	v := ic.Cmp.X
	if i == 1 {
		v = ic.Cmp.Y
	}
	return newReadPathsAt(ic.c, v, ic.frame)
}

// LenPath: if operand i is len(E), the access path of E resolved through the
// calling context ("" if it is not a len call or the path is not a field path).
func (ic InlinedCompare) LenPath(i int) (string, bool) {
	v := ic.Cmp.X
	if i == 1 {
		v = ic.Cmp.Y
	}
	arg := lenOperand(v)
	if arg == nil {
		return "", false
	}
	r := &ReadPaths{c: ic.c}
	return r.pathOf(arg, ic.frame, 0), true
}

// InlinedInstr is an instruction of a function or, with the calling context
// recorded, of a repository function it statically calls.
type InlinedInstr struct {
	Ins   ssa.Instruction
	frame *rpFrame
	c     *Ctx
}

// Slice computes the backward slice of a value of the instruction's function
// in the instruction's calling context.
func (ii InlinedInstr) Slice(v ssa.Value) *ReadPaths { return newReadPathsAt(ii.c, v, ii.frame) }

// Depth is the inlining depth (0: the function itself).
func (ii InlinedInstr) Depth() int {
	if ii.frame == nil {
		return 0
	}
	return ii.frame.depth
}

// InlinedInstrs enumerates the instructions selected by pred in fn and in the
// repository functions it statically calls (depth-bounded, no recursion).
func InlinedInstrs(c *Ctx, fn *ssa.Function, maxDepth int, pred func(ssa.Instruction) bool) []InlinedInstr {
	var res []InlinedInstr
	var visit func(f *ssa.Function, fr *rpFrame, depth int)
	visit = func(f *ssa.Function, fr *rpFrame, depth int) {
		for _, b := range f.Blocks {
			for _, ins := range b.Instrs {
				if pred(ins) {
					res = append(res, InlinedInstr{Ins: ins, frame: fr, c: c})
				}
				x, ok := ins.(ssa.CallInstruction)
				if !ok {
					continue
				}
				sc := x.Common().StaticCallee()
				if sc == nil || sc.Blocks == nil || !c.IsRepoFunc(sc) || depth >= maxDepth {
					continue
				}
				onStack := sc == fn
				for p := fr; p != nil; p = p.parent {
					if p.callee == sc {
						onStack = true
					}
				}
				if onStack {
					continue
				}
				visit(sc, &rpFrame{call: x, args: x.Common().Args, callee: sc, parent: fr, depth: depth + 1}, depth+1)
			}
		}
	}
	visit(fn, nil, 0)
	return res
}

// PathOf renders the field access path of v in the instruction's calling context.
func (ii InlinedInstr) PathOf(v ssa.Value) string {
	r := &ReadPaths{c: ii.c}
	return r.pathOf(v, ii.frame, 0)
}

// InlinedInstrsFrom is InlinedInstrs restricted, in fn itself, to the given blocks.
func InlinedInstrsFrom(c *Ctx, fn *ssa.Function, region map[*ssa.BasicBlock]bool, maxDepth int, pred func(ssa.Instruction) bool) []InlinedInstr {
	var res []InlinedInstr
	for _, ii := range InlinedInstrs(c, fn, maxDepth, pred) {
		root := ii.Ins.Block()
		for f := ii.frame; f != nil; f = f.parent {
			if f.parent == nil {
				root = f.call.Block()
			}
		}
		if region[root] {
			res = append(res, ii)
		}
	}
	return res
}

// ReachableForKind decides whether the instruction can execute, starting at
// block `from` of the outermost function, when the value whose access path (in
// context) is subjectPath has dynamic type kind: comma-ok type assertions (and
// therefore type-switch arms) on that value are evaluated, every other branch
// is explored both ways. The walk goes through the call sites recorded in the
// instruction's inlining frames.
func (ii InlinedInstr) ReachableForKind(from *ssa.BasicBlock, subjectPath string, kind types.Type) bool {
	// chain of (function-entry-or-from, target block, frame) from the outermost function inwards
	type leg struct {
		from, to *ssa.BasicBlock
		fr       *rpFrame
	}
	var legs []leg
	to := ii.Ins.Block()
	for f := ii.frame; ; f = f.parent {
		if f == nil {
			legs = append(legs, leg{from, to, nil})
			break
		}
		legs = append(legs, leg{f.callee.Blocks[0], to, f})
		to = f.call.Block()
	}
	for _, l := range legs {
		if !ii.reach(l.from, l.to, l.fr, subjectPath, kind) {
			return false
		}
	}
	return true
}

func (ii InlinedInstr) reach(from, to *ssa.BasicBlock, fr *rpFrame, subjectPath string, kind types.Type) bool {
	r := &ReadPaths{c: ii.c}
	var known func(v ssa.Value, d int) (bool, bool)
	known = func(v ssa.Value, d int) (val bool, ok bool) {
		if d > 6 {
			return false, false
		}
		switch x := v.(type) {
		case *ssa.Extract:
			ta, isTA := x.Tuple.(*ssa.TypeAssert)
			if !isTA || x.Index != 1 || r.pathOf(ta.X, fr, 0) != subjectPath {
				return false, false
			}
			if iface, isI := types.Unalias(ta.AssertedType).Underlying().(*types.Interface); isI {
				return types.Implements(kind, iface), true
			}
			return types.Identical(kind, ta.AssertedType), true
		case *ssa.UnOp:
			if x.Op == token.NOT {
				if b, ok := known(x.X, d+1); ok {
					return !b, true
				}
			}
		case *ssa.Phi:
			// short-circuit && / ||: all known edges must agree
			first := true
			var acc bool
			for _, e := range x.Edges {
				b, ok := known(e, d+1)
				if !ok {
					if k, isC := e.(*ssa.Const); isC && k.Value != nil && k.Value.Kind() == constant.Bool {
						b, ok = constant.BoolVal(k.Value), true
					}
				}
				if !ok {
					return false, false
				}
				if first {
					acc, first = b, false
				} else if acc != b {
					return false, false
				}
			}
			return acc, !first
		}
		return false, false
	}
	// the walk is over CFG edges so that a boolean phi tested in its own block (flag set in the arms of a
	// type switch, tested after it) can be evaluated for the predecessor actually taken
	type edge struct{ pred, b *ssa.BasicBlock }
	seen := map[edge]bool{}
	st := []edge{{nil, from}}
	for len(st) > 0 {
		e := st[len(st)-1]
		st = st[:len(st)-1]
		if e.b == to {
			return true
		}
		if seen[e] {
			continue
		}
		seen[e] = true
		blk := e.b
		if iff, ok := blk.Instrs[len(blk.Instrs)-1].(*ssa.If); ok {
			val, ok := known(iff.Cond, 0)
			if !ok && e.pred != nil {
				if phi, isPhi := iff.Cond.(*ssa.Phi); isPhi && phi.Block() == blk {
					for i, p := range blk.Preds {
						if p != e.pred {
							continue
						}
						if k, isC := phi.Edges[i].(*ssa.Const); isC && k.Value != nil && k.Value.Kind() == constant.Bool {
							val, ok = constant.BoolVal(k.Value), true
						} else {
							val, ok = known(phi.Edges[i], 1)
						}
					}
				}
			}
			if ok {
				if val {
					st = append(st, edge{blk, blk.Succs[0]})
				} else {
					st = append(st, edge{blk, blk.Succs[1]})
				}
				continue
			}
		}
		for _, s := range blk.Succs {
			st = append(st, edge{blk, s})
		}
	}
	return false
}

// InlinedCompares enumerates the ordering comparisons (<, <=, >, >=) of fn and
// of the repository functions it statically calls (depth-bounded inlining).
func InlinedCompares(c *Ctx, fn *ssa.Function, maxDepth int) []InlinedCompare {
	var res []InlinedCompare
	for _, ii := range InlinedInstrs(c, fn, maxDepth, func(ins ssa.Instruction) bool {
		bo, ok := ins.(*ssa.BinOp)
		if !ok {
			return false
		}
		switch bo.Op {
		case token.LSS, token.LEQ, token.GTR, token.GEQ:
			return true
		}
		return false
	}) {
		res = append(res, InlinedCompare{Cmp: ii.Ins.(*ssa.BinOp), frame: ii.frame, c: c})
	}
	return res
}

// HasSuffix reports whether some read path ends with the given components.
func (r *ReadPaths) HasSuffix(components ...string) bool {
	for p := range r.Paths {
		parts := strings.Split(p, ".")
		if len(parts) < len(components) {
			continue
		}
		ok := true
		for i := range components {
			if parts[len(parts)-len(components)+i] != components[i] {
				ok = false
			}
		}
		if ok {
			return true
		}
	}
	return false
}

func (r *ReadPaths) walk(v ssa.Value, fr *rpFrame) {
	if v == nil {
		return
	}
	k := rpKey{v, fr}
	if r.seen[k] || r.n > 20000 {
		return
	}
	r.seen[k] = true
	r.n++
	switch x := v.(type) {
	case *ssa.Parameter:
		if fr != nil {
			if i := ParamIndex(fr.callee, x); i >= 0 && i < len(fr.args) {
				r.walk(fr.args[i], fr.parent)
			}
		} else if r.Roots != nil {
			r.Roots[x] = true
		}
		return
	case *ssa.FreeVar, *ssa.Global, *ssa.Const, *ssa.Function, *ssa.Builtin:
		return
	case *ssa.Alloc:
		r.allocContents(x, x, fr, 0)
		return
	case *ssa.MakeSlice:
		r.allocContents(nil, x, fr, 0)
	case *ssa.MakeMap:
		// contents of a locally built map
		if x.Referrers() != nil {
			for _, ref := range *x.Referrers() {
				if mu, ok := ref.(*ssa.MapUpdate); ok && mu.Map == ssa.Value(x) {
					r.walk(mu.Key, fr)
					r.walk(mu.Value, fr)
				}
			}
		}
	case *ssa.UnOp:
		if x.Op.String() == "*" {
			if p := r.pathOf(x.X, fr, 0); p != "" {
				r.Paths[p] = true
			}
		}
	case *ssa.Field:
		if p := r.pathOf(x, fr, 0); p != "" {
			r.Paths[p] = true
		}
	case *ssa.Call:
		sc := x.Call.StaticCallee()
		depth := 0
		if fr != nil {
			depth = fr.depth
		}
		if sc != nil && sc.Blocks != nil && r.c.IsRepoFunc(sc) && depth < 6 && !r.onStack(sc, fr) {
			r.Calls[sc.Name()] = true
			nf := &rpFrame{args: x.Call.Args, callee: sc, parent: fr, depth: depth + 1}
			for _, b := range sc.Blocks {
				if ret, ok := b.Instrs[len(b.Instrs)-1].(*ssa.Return); ok {
					for _, rv := range ret.Results {
						r.walk(rv, nf)
					}
				}
			}
			return
		}
		name := "dynamic"
		if sc != nil {
			name = sc.Name()
		} else if x.Call.IsInvoke() {
			name = x.Call.Method.Name()
		} else if b, ok := x.Call.Value.(*ssa.Builtin); ok {
			name = b.Name()
		}
		r.Calls[name] = true
	}
	if ins, ok := v.(ssa.Instruction); ok {
		var rands []*ssa.Value
		for _, op := range ins.Operands(rands) {
			if *op != nil {
				r.walk(*op, fr)
			}
		}
	}
}

func (r *ReadPaths) onStack(fn *ssa.Function, fr *rpFrame) bool {
	for f := fr; f != nil; f = f.parent {
		if f.callee == fn {
			return true
		}
	}
	return false
}

func (r *ReadPaths) allocContents(root *ssa.Alloc, addr ssa.Value, fr *rpFrame, depth int) {
	if depth > 5 || addr.Referrers() == nil {
		return
	}
	for _, ref := range *addr.Referrers() {
		switch x := ref.(type) {
		case *ssa.Store:
			if x.Addr == addr {
				r.walk(x.Val, fr)
			}
		case *ssa.FieldAddr:
			if x.X == addr {
				r.allocContents(root, x, fr, depth+1)
			}
		case *ssa.IndexAddr:
			if x.X == addr {
				r.allocContents(root, x, fr, depth+1)
			}
		case *ssa.Slice:
			if x.X == addr {
				r.allocContents(root, x, fr, depth+1)
			}
		}
	}
}

// pathOf renders the field path of an address / field value, resolving
// parameters through the inlining frames.
func (r *ReadPaths) pathOf(v ssa.Value, fr *rpFrame, depth int) string {
	if depth > 24 {
		return ""
	}
	join := func(prefix, name string) string {
		if prefix == "" {
			return name
		}
		return prefix + "." + name
	}
	switch x := v.(type) {
	case *ssa.FieldAddr:
		_, f := FieldOf(x)
		if f == nil {
			return ""
		}
		return join(r.pathOf(x.X, fr, depth+1), f.Name())
	case *ssa.Field:
		_, f := FieldOf(x)
		if f == nil {
			return ""
		}
		return join(r.pathOf(x.X, fr, depth+1), f.Name())
	case *ssa.UnOp:
		if x.Op.String() == "*" {
			return r.pathOf(x.X, fr, depth+1)
		}
	case *ssa.Parameter:
		if fr != nil {
			if i := ParamIndex(fr.callee, x); i >= 0 && i < len(fr.args) {
				return r.pathOf(fr.args[i], fr.parent, depth+1)
			}
		}
	case *ssa.Alloc:
		// spilled value (by-value receiver, address-taken local): single store
		var st *ssa.Store
		n := 0
		if x.Referrers() != nil {
			for _, ref := range *x.Referrers() {
				if s, ok := ref.(*ssa.Store); ok && s.Addr == ssa.Value(x) {
					st, n = s, n+1
				}
			}
		}
		if n == 1 {
			return r.pathOf(st.Val, fr, depth+1)
		}
	case *ssa.Phi:
		for _, e := range x.Edges {
			if p := r.pathOf(e, fr, depth+1); p != "" {
				return p
			}
		}
	case *ssa.ChangeType:
		return r.pathOf(x.X, fr, depth+1)
	}
	return ""
}
