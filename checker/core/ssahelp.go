package core

import (
	"go/types"

	"golang.org/x/tools/go/ssa"
)

// EdgeDominates reports whether taking branch k (0=true, 1=false) of the If
// terminating ifBlock is a necessary condition for reaching b.
func EdgeDominates(ifBlock *ssa.BasicBlock, k int, b *ssa.BasicBlock) bool {
	if k >= len(ifBlock.Succs) {
		return false
	}
	s := ifBlock.Succs[k]
	if len(s.Preds) != 1 {
		return false
	}
	return s.Dominates(b)
}

// PostDom computes post-dominator sets for fn: pd[b.Index][x.Index] is true if
// every path from b to a function exit (Return/Panic block, or block without
// successors) passes through x. Blocks that cannot reach an exit post-dominate
// nothing but themselves.
func PostDom(fn *ssa.Function) [][]bool {
	n := len(fn.Blocks)
	pd := make([][]bool, n)
	isExit := make([]bool, n)
	for i, b := range fn.Blocks {
		pd[i] = make([]bool, n)
		if len(b.Succs) == 0 {
			isExit[i] = true
			pd[i][i] = true
		} else {
			for j := range pd[i] {
				pd[i][j] = true
			}
		}
	}
	changed := true
	for changed {
		changed = false
		for i := n - 1; i >= 0; i-- {
			b := fn.Blocks[i]
			if isExit[i] {
				continue
			}
			nw := make([]bool, n)
			for j := range nw {
				nw[j] = true
			}
			for _, s := range b.Succs {
				for j := range nw {
					nw[j] = nw[j] && pd[s.Index][j]
				}
			}
			nw[i] = true
			for j := range nw {
				if nw[j] != pd[i][j] {
					changed = true
				}
			}
			pd[i] = nw
		}
	}
	return pd
}

// Reaches reports whether block to is reachable from block from (from==to counts).
func Reaches(from, to *ssa.BasicBlock) bool {
	seen := map[*ssa.BasicBlock]bool{}
	var st []*ssa.BasicBlock
	st = append(st, from)
	for len(st) > 0 {
		b := st[len(st)-1]
		st = st[:len(st)-1]
		if b == to {
			return true
		}
		if seen[b] {
			continue
		}
		seen[b] = true
		st = append(st, b.Succs...)
	}
	return false
}

// InstrIndex returns the index of ins in its block.
func InstrIndex(ins ssa.Instruction) int {
	for i, x := range ins.Block().Instrs {
		if x == ins {
			return i
		}
	}
	return -1
}

// InstrDominates reports whether a dominates b (same function).
func InstrDominates(a, b ssa.Instruction) bool {
	if a.Block() == b.Block() {
		return InstrIndex(a) < InstrIndex(b)
	}
	return a.Block().Dominates(b.Block())
}

// FieldOf returns the struct type name and field name addressed/read by a
// FieldAddr or Field instruction ("", "" otherwise).
func FieldOf(v ssa.Value) (typ *types.Named, field *types.Var) {
	var x ssa.Value
	var idx int
	switch f := v.(type) {
	case *ssa.FieldAddr:
		x, idx = f.X, f.Field
	case *ssa.Field:
		x, idx = f.X, f.Field
	default:
		return nil, nil
	}
	t := types.Unalias(x.Type())
	if p, ok := t.Underlying().(*types.Pointer); ok {
		t = types.Unalias(p.Elem())
	}
	st, ok := t.Underlying().(*types.Struct)
	if !ok {
		return nil, nil
	}
	n, _ := t.(*types.Named)
	return n, st.Field(idx)
}

// Origin follows a value backwards through copies (loads, phis are not
// followed) to the FieldAddr/Field/Global/Parameter/... it was loaded from:
// UnOp(*) -> its address operand; ChangeType/Convert/MakeInterface/ChangeInterface -> X.
func Origin(v ssa.Value) ssa.Value {
	for i := 0; i < 20; i++ {
		switch x := v.(type) {
		case *ssa.UnOp:
			if x.Op.String() == "*" {
				v = x.X
				continue
			}
			return v
		case *ssa.ChangeType:
			v = x.X
		case *ssa.Convert:
			v = x.X
		case *ssa.MakeInterface:
			v = x.X
		case *ssa.ChangeInterface:
			v = x.X
		default:
			return v
		}
	}
	return v
}

// StaticCalleeOf returns the static callee of a call instruction or nil.
func StaticCalleeOf(ins ssa.Instruction) *ssa.Function {
	if ci, ok := ins.(ssa.CallInstruction); ok {
		return ci.Common().StaticCallee()
	}
	return nil
}

// MapFieldOrigin resolves a map-typed value to the struct field it is loaded
// from: directly (load of a FieldAddr) or through a repository accessor
// function all of whose returns are loads of one field of its receiver /
// first parameter (e.g. `func (g *GlobalNode) writeLocs() map[..]..`).
func MapFieldOrigin(v ssa.Value) (*types.Named, *types.Var) {
	return mapFieldOrigin(v, map[ssa.Value]bool{})
}

func mapFieldOrigin(v ssa.Value, seen map[ssa.Value]bool) (*types.Named, *types.Var) {
	if seen[v] || len(seen) > 64 {
		return nil, nil
	}
	seen[v] = true
	switch x := v.(type) {
	case *ssa.UnOp:
		if x.Op.String() == "*" {
			return FieldOf(x.X)
		}
	case *ssa.Call:
		sc := x.Call.StaticCallee()
		if sc == nil || sc.Blocks == nil || len(sc.Params) == 0 {
			return nil, nil
		}
		var rn *types.Named
		var rf *types.Var
		for _, b := range sc.Blocks {
			ret, ok := b.Instrs[len(b.Instrs)-1].(*ssa.Return)
			if !ok || len(ret.Results) != 1 {
				continue
			}
			ld, ok := ret.Results[0].(*ssa.UnOp)
			if !ok {
				return nil, nil
			}
			n, f := FieldOf(ld.X)
			if n == nil || (rf != nil && rf != f) {
				return nil, nil
			}
			rn, rf = n, f
		}
		return rn, rf
	case *ssa.Phi:
		for _, e := range x.Edges {
			if n, f := mapFieldOrigin(e, seen); n != nil {
				return n, f
			}
		}
	}
	return nil, nil
}
