package rules

import (
	"fmt"
	"sort"
	"strings"

	"golang.org/x/tools/go/ssa"

	"verif/checker/core"
)

func init() { Registry["INV-stops"] = invStops }

// invStops lists, for the enqueue of both visitors, the conditions it is control dependent on and what they read.
func invStops(c *core.Ctx, r *core.Report) {
	for _, pkg := range []string{"analysis/taint", "analysis/backtrace"} {
		fn := c.Func(pkg, "Visitor.addNext")
		if fn == nil {
			continue
		}
		for _, ii := range core.InlinedInstrs(c, fn, 0, func(ins ssa.Instruction) bool {
			call, ok := ins.(*ssa.Call)
			if !ok {
				return false
			}
			b, ok := call.Call.Value.(*ssa.Builtin)
			return ok && b.Name() == "append" && strings.Contains(call.Call.Args[0].Type().String(), "dataflow.VisitorNode")
		}) {
			for _, cond := range ii.ControlConds() {
				sl := cond.Slice(cond.Ins.(*ssa.If).Cond)
				var ps, cs []string
				for p := range sl.Paths {
					ps = append(ps, p)
				}
				for p := range sl.Calls {
					cs = append(cs, p)
				}
				sort.Strings(ps)
				sort.Strings(cs)
				fmt.Printf("%s %s paths=%v calls=%v\n", pkg, c.Pos(cond.Ins.Block().Instrs[0].Pos()), ps, cs)
			}
		}
	}
}
