// Package core holds the loader, the obligation/report model and the shared
// fact-extraction helpers used by the per-property rules.
package core

import (
	"fmt"
	"go/ast"
	"go/token"
	"go/types"
	"os"
	"sort"
	"strings"

	"golang.org/x/tools/go/callgraph"
	"golang.org/x/tools/go/callgraph/cha"
	"golang.org/x/tools/go/callgraph/vta"
	"golang.org/x/tools/go/packages"
	"golang.org/x/tools/go/ssa"
	"golang.org/x/tools/go/ssa/ssautil"
)

// Module is the module path of the repository under analysis.
const Module = "github.com/awslabs/ar-go-tools"

// Ctx is the loaded, type-checked and SSA-built view of /repo.
type Ctx struct {
	RepoDir string
	Tier    string
	Fset    *token.FileSet
	Roots   []*packages.Package
	All     map[string]*packages.Package // by package path, roots and deps
	Prog    *ssa.Program
	SSAPkgs []*ssa.Package

	repoGraph *RepoGraph
	chaGraph *callgraph.Graph
	vtaGraph *callgraph.Graph
	allFuncs map[*ssa.Function]bool
	declOf   map[types.Object]*ast.FuncDecl
	fileOf   map[*ast.File]*packages.Package
}

// Load loads ./... of repoDir with full syntax and builds SSA with
// InstantiateGenerics (the mode Argot itself uses).
func Load(repoDir string, tier string, tests bool, extraEnv ...string) (*Ctx, error) {
	env := []string{}
	for _, e := range os.Environ() {
		if strings.HasPrefix(e, "GOWORK=") || strings.HasPrefix(e, "GOFLAGS=") ||
			strings.HasPrefix(e, "GOPROXY=") || strings.HasPrefix(e, "GOTOOLCHAIN=") ||
			strings.HasPrefix(e, "GOSUMDB=") {
			continue
		}
		env = append(env, e)
	}
	env = append(env, "GOFLAGS=-mod=mod", "GOPROXY=off", "GOWORK=off", "GOSUMDB=off", "GOTOOLCHAIN=local")
	env = append(env, extraEnv...)
	cfg := &packages.Config{
		Mode:  packages.LoadAllSyntax,
		Dir:   repoDir,
		Env:   env,
		Tests: tests,
	}
	pkgs, err := packages.Load(cfg, "./...")
	if err != nil {
		return nil, fmt.Errorf("packages.Load: %w", err)
	}
	if len(pkgs) == 0 {
		return nil, fmt.Errorf("no packages loaded from %s", repoDir)
	}
	c := &Ctx{RepoDir: repoDir, Tier: tier, Roots: pkgs, All: map[string]*packages.Package{}}
	var errs []string
	packages.Visit(pkgs, nil, func(p *packages.Package) {
		if _, ok := c.All[p.PkgPath]; !ok || p.ID == p.PkgPath {
			c.All[p.PkgPath] = p
		}
		if strings.HasPrefix(p.PkgPath, Module) {
			for _, e := range p.Errors {
				errs = append(errs, e.Error())
			}
		}
	})
	if len(errs) > 0 {
		sort.Strings(errs)
		if len(errs) > 10 {
			errs = errs[:10]
		}
		return nil, fmt.Errorf("type/load errors in repository packages:\n  %s", strings.Join(errs, "\n  "))
	}
	c.Fset = pkgs[0].Fset
	prog, ssapkgs := ssautil.AllPackages(pkgs, ssa.InstantiateGenerics)
	prog.Build()
	c.Prog = prog
	c.SSAPkgs = ssapkgs
	c.declOf = map[types.Object]*ast.FuncDecl{}
	c.fileOf = map[*ast.File]*packages.Package{}
	for _, p := range c.All {
		if !strings.HasPrefix(p.PkgPath, Module) {
			continue
		}
		for _, f := range p.Syntax {
			c.fileOf[f] = p
			for _, d := range f.Decls {
				if fd, ok := d.(*ast.FuncDecl); ok {
					if obj := p.TypesInfo.Defs[fd.Name]; obj != nil {
						c.declOf[obj] = fd
					}
				}
			}
		}
	}
	return c, nil
}

// RepoPkgs returns the non-test repository packages sorted by path.
func (c *Ctx) RepoPkgs() []*packages.Package {
	var res []*packages.Package
	for path, p := range c.All {
		if strings.HasPrefix(path, Module) && !strings.HasSuffix(path, ".test") && !strings.HasSuffix(path, "_test") {
			res = append(res, p)
		}
	}
	sort.Slice(res, func(i, j int) bool { return res[i].PkgPath < res[j].PkgPath })
	return res
}

// Pkg returns the repository package with the given module-relative path.
func (c *Ctx) Pkg(rel string) *packages.Package {
	return c.All[Module+"/"+rel]
}

// SSAPkg returns the SSA package for a module-relative path.
func (c *Ctx) SSAPkg(rel string) *ssa.Package {
	p := c.Pkg(rel)
	if p == nil {
		return nil
	}
	return c.Prog.Package(p.Types)
}

// LookupObj finds a package-level object, or a method when name has the form
// "T.m" (value or pointer receiver alike).
func (c *Ctx) LookupObj(rel, name string) types.Object {
	p := c.Pkg(rel)
	if p == nil {
		return nil
	}
	if i := strings.Index(name, "."); i >= 0 {
		tn, _ := p.Types.Scope().Lookup(name[:i]).(*types.TypeName)
		if tn == nil {
			return nil
		}
		obj, _, _ := types.LookupFieldOrMethod(types.NewPointer(tn.Type()), true, p.Types, name[i+1:])
		return obj
	}
	return p.Types.Scope().Lookup(name)
}

// Func returns the SSA function for a package-level function or "T.m" method.
func (c *Ctx) Func(rel, name string) *ssa.Function {
	obj, _ := c.LookupObj(rel, name).(*types.Func)
	if obj == nil {
		return nil
	}
	return c.Prog.FuncValue(obj)
}

// Decl returns the syntax of a function declared in the repository.
func (c *Ctx) Decl(rel, name string) (*ast.FuncDecl, *packages.Package) {
	obj := c.LookupObj(rel, name)
	if obj == nil {
		return nil, nil
	}
	return c.declOf[obj], c.Pkg(rel)
}

// DeclOfObj returns the declaration of a function object of the repository.
func (c *Ctx) DeclOfObj(obj types.Object) *ast.FuncDecl { return c.declOf[obj] }

// Pos renders a position relative to the repository root.
func (c *Ctx) Pos(p token.Pos) string {
	if !p.IsValid() {
		return "-"
	}
	pos := c.Fset.Position(p)
	f := strings.TrimPrefix(pos.Filename, c.RepoDir+"/")
	return fmt.Sprintf("%s:%d", f, pos.Line)
}

// IsRepoFunc tells whether fn belongs to a repository package (incl. closures
// and instantiations).
func (c *Ctx) IsRepoFunc(fn *ssa.Function) bool {
	for fn.Parent() != nil {
		fn = fn.Parent()
	}
	if o := fn.Origin(); o != nil {
		fn = o
	}
	if fn.Pkg != nil {
		return strings.HasPrefix(fn.Pkg.Pkg.Path(), Module)
	}
	if fn.Object() != nil && fn.Object().Pkg() != nil {
		return strings.HasPrefix(fn.Object().Pkg().Path(), Module)
	}
	return false
}

// FuncPkgRel returns the module-relative package path of fn ("" if none).
func (c *Ctx) FuncPkgRel(fn *ssa.Function) string {
	for fn.Parent() != nil {
		fn = fn.Parent()
	}
	if o := fn.Origin(); o != nil {
		fn = o
	}
	var path string
	if fn.Pkg != nil {
		path = fn.Pkg.Pkg.Path()
	} else if fn.Object() != nil && fn.Object().Pkg() != nil {
		path = fn.Object().Pkg().Path()
	}
	return strings.TrimPrefix(strings.TrimPrefix(path, Module), "/")
}

// FuncName returns a stable short name "pkgrel.(*T).m" / "pkgrel.f$1".
func (c *Ctx) FuncName(fn *ssa.Function) string {
	s := fn.String()
	s = strings.ReplaceAll(s, Module+"/", "")
	return s
}

// AllFunctions returns every SSA function of the program (cached).
func (c *Ctx) AllFunctions() map[*ssa.Function]bool {
	if c.allFuncs == nil {
		c.allFuncs = ssautil.AllFunctions(c.Prog)
	}
	return c.allFuncs
}

// RepoFunctions returns every SSA function (incl. closures, excluding
// synthetic wrappers without syntax) belonging to non-test repository
// packages, sorted by name.
func (c *Ctx) RepoFunctions() []*ssa.Function {
	var res []*ssa.Function
	for fn := range c.AllFunctions() {
		if c.IsRepoFunc(fn) && fn.Blocks != nil {
			res = append(res, fn)
		}
	}
	sort.Slice(res, func(i, j int) bool {
		if res[i].String() != res[j].String() {
			return res[i].String() < res[j].String()
		}
		return res[i].Pos() < res[j].Pos()
	})
	return res
}

// CHA returns the class-hierarchy call graph (cached).
func (c *Ctx) CHA() *callgraph.Graph {
	if c.chaGraph == nil {
		c.chaGraph = cha.CallGraph(c.Prog)
	}
	return c.chaGraph
}

// VTA returns the VTA call graph seeded by CHA (cached).
func (c *Ctx) VTA() *callgraph.Graph {
	if c.vtaGraph == nil {
		c.vtaGraph = vta.CallGraph(c.AllFunctions(), c.CHA())
	}
	return c.vtaGraph
}

// Reachable returns the set of functions reachable from roots in g.
func Reachable(g *callgraph.Graph, roots ...*ssa.Function) map[*ssa.Function]bool {
	seen := map[*ssa.Function]bool{}
	var stack []*ssa.Function
	for _, r := range roots {
		if r != nil && !seen[r] {
			seen[r] = true
			stack = append(stack, r)
		}
	}
	for len(stack) > 0 {
		f := stack[len(stack)-1]
		stack = stack[:len(stack)-1]
		// closures created inside f are considered reachable with f
		for _, an := range f.AnonFuncs {
			if !seen[an] {
				seen[an] = true
				stack = append(stack, an)
			}
		}
		n := g.Nodes[f]
		if n == nil {
			continue
		}
		for _, e := range n.Out {
			if !seen[e.Callee.Func] {
				seen[e.Callee.Func] = true
				stack = append(stack, e.Callee.Func)
			}
		}
	}
	return seen
}

// Depth returns the inlining depth to use for a rule whose quick-tier depth is n:
// the thorough tier inlines two levels deeper (helpers of helpers of helpers).
func (c *Ctx) Depth(n int) int {
	if c.Tier == "thorough" {
		return n + 2
	}
	return n
}
