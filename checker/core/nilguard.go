package core

import (
	"go/token"

	"golang.org/x/tools/go/ssa"
)

// UnguardedDerefs returns the field accesses through a pointer whose type
// satisfies pred (short type string) that are not dominated by a nil test of
// the same access path (`x.f != nil` taken, or `x.f == nil` not taken), nor
// applied to a value that is obviously non-nil (fresh allocation, result of
// Add/New*).
func UnguardedDerefs(c *Ctx, fn *ssa.Function, pred func(shortType string) bool) []*ssa.FieldAddr {
	var res []*ssa.FieldAddr
	type guard struct {
		path string
		root ssa.Value
		blk  *ssa.BasicBlock // block dominated by the non-nil edge
	}
	var guards []guard
	isNil := func(v ssa.Value) bool {
		k, ok := v.(*ssa.Const)
		return ok && k.IsNil()
	}
	for _, b := range fn.Blocks {
		iff, ok := b.Instrs[len(b.Instrs)-1].(*ssa.If)
		if !ok {
			continue
		}
		bo, ok := iff.Cond.(*ssa.BinOp)
		if !ok || (bo.Op != token.NEQ && bo.Op != token.EQL) {
			continue
		}
		var v ssa.Value
		if isNil(bo.Y) {
			v = bo.X
		} else if isNil(bo.X) {
			v = bo.Y
		}
		if v == nil {
			continue
		}
		// derived guard: `F(..., x, ...) != nil` where F returns nil whenever that argument is nil
		if call, ok := v.(*ssa.Call); ok {
			if sc := call.Call.StaticCallee(); sc != nil && len(sc.Blocks) > 0 {
				if iff0, ok := sc.Blocks[0].Instrs[len(sc.Blocks[0].Instrs)-1].(*ssa.If); ok {
					if c0, ok := iff0.Cond.(*ssa.BinOp); ok && c0.Op == token.EQL && isNil(c0.Y) {
						if i := ParamIndex(sc, c0.X); i >= 0 && i < len(call.Call.Args) {
							t := sc.Blocks[0].Succs[0]
							if ret, ok := t.Instrs[len(t.Instrs)-1].(*ssa.Return); ok && len(ret.Results) == 1 && isNil(ret.Results[0]) {
								v = call.Call.Args[i]
							}
						}
					}
				}
			}
		}
		p, root := c.PathAndRootOf(v)
		succ := b.Succs[0]
		if bo.Op == token.EQL {
			succ = b.Succs[1]
		}
		if len(succ.Preds) == 1 {
			guards = append(guards, guard{p, root, succ})
		}
		// `if x == nil { return/panic }`: the rest of the function after the If is guarded too
		other := b.Succs[1]
		if bo.Op == token.EQL {
			other = b.Succs[0]
		}
		if len(other.Succs) == 0 && len(succ.Preds) >= 1 {
			guards = append(guards, guard{p, root, succ})
		}
	}
	for _, b := range fn.Blocks {
		for _, ins := range b.Instrs {
			fa, ok := ins.(*ssa.FieldAddr)
			if !ok || !pred(ShortType(fa.X.Type())) {
				continue
			}
			switch x := fa.X.(type) {
			case *ssa.Alloc:
				continue
			case *ssa.Call:
				if sc := x.Call.StaticCallee(); sc != nil && (sc.Name() == "Add" || len(sc.Name()) > 3 && sc.Name()[:3] == "New") {
					continue
				}
			}
			p, root := c.PathAndRootOf(fa.X)
			ok2 := false
			for _, g := range guards {
				if g.path == p && g.root == root && (g.blk == b || g.blk.Dominates(b)) {
					ok2 = true
				}
			}
			if !ok2 {
				res = append(res, fa)
			}
		}
	}
	return res
}
