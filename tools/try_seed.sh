#!/bin/bash
# usage: try_seed.sh <patch.diff> [property ...]
# Applies the patch in a scratch worktree of /repo HEAD (outside /repo and /verif), runs the checks against it
# (argotcheck -repo), prints the violations, removes the worktree.
set -u
patch=$(readlink -f "$1"); shift
props=${@:-$(python3 -c "import json;print(' '.join(c['property_id'] for c in json.load(open('/verif/MANIFEST.json'))['checks']))")}
wt=$(mktemp -d /tmp/seedtry.XXXXXX)
git -C /repo worktree add -q --detach "$wt" HEAD || exit 2
trap 'git -C /repo worktree remove --force "$wt" >/dev/null 2>&1; rm -rf "$wt"' EXIT
cd "$wt" && git apply "$patch" || { echo "patch does not apply"; exit 2; }
export GOFLAGS=-mod=mod GOPROXY=off GOSUMDB=off GOTOOLCHAIN=local
go build ./... 2>&1 | tail -3
mkdir -p /tmp/seedrun && cp /verif/known_findings.jsonl /tmp/seedrun/
for p in $props; do
  out=$(/verif/bin/argotcheck -property $p -tier quick -repo "$wt" -verif /tmp/seedrun 2>&1)
  n=$(echo "$out" | grep -c '^  violation')
  echo "== $p: $n violation(s)"
  echo "$out" | grep '^  violation' | cut -c1-300
done
