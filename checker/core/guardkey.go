package core

import (
	"fmt"
	"go/types"
	"sort"
	"strings"

	"golang.org/x/tools/go/ssa"
)

// GuardGap is a "do it once" guard whose key does not cover what the guarded
// effect is applied to: `if !seen[k] { seen[k] = true; effect(x) }` inside a
// loop, where x is a part of the loop's current element that k does not
// include.
type GuardGap struct {
	Lookup  *ssa.Lookup
	Effect  ssa.Instruction
	Missing []string
	Key     string
}

// iterRootFields: for the backward slice of v (operands, same function), the
// parts of per-iteration values it reads: root (a loop-header phi or a range
// Next) -> set of field paths, "" meaning the whole value.
func iterRootFields(c *Ctx, v ssa.Value, loopHeaders map[*ssa.BasicBlock]bool, inLoop func(*ssa.BasicBlock) bool) map[ssa.Value]map[string]bool {
	res := map[ssa.Value]map[string]bool{}
	note := func(root ssa.Value, path string) {
		isIter := false
		switch x := root.(type) {
		case *ssa.Phi:
			isIter = loopHeaders[x.Block()]
		case *ssa.Next:
			isIter = true
		case *ssa.Extract:
			if _, ok := x.Tuple.(*ssa.Next); ok {
				isIter = true
			}
		case *ssa.Alloc:
			// a variable cell (captured work list, ...) that is re-assigned inside a loop: its content is per-iteration
			if x.Referrers() != nil {
				for _, ref := range *x.Referrers() {
					if st, ok := ref.(*ssa.Store); ok && st.Addr == ssa.Value(x) && inLoop(st.Block()) {
						isIter = true
					}
				}
			}
		}
		if !isIter {
			return
		}
		if res[root] == nil {
			res[root] = map[string]bool{}
		}
		res[root][path] = true
	}
	seen := map[ssa.Value]bool{}
	var walk func(v ssa.Value, proj bool)
	walk = func(v ssa.Value, proj bool) {
		if v == nil || seen[v] || len(seen) > 600 {
			return
		}
		seen[v] = true
		switch x := v.(type) {
		case *ssa.Parameter, *ssa.FreeVar, *ssa.Global, *ssa.Const, *ssa.Function, *ssa.Builtin:
			return
		case *ssa.Field, *ssa.FieldAddr:
			p, root := c.PathAndRootOf(x)
			if p != "" {
				note(root, p)
				return
			}
		case *ssa.UnOp:
			if fa, ok := x.X.(*ssa.FieldAddr); ok && x.Op.String() == "*" {
				p, root := c.PathAndRootOf(fa)
				if p != "" {
					note(root, p)
					return
				}
			}
		case *ssa.Phi:
			if loopHeaders[x.Block()] && !proj {
				note(x, "")
				return
			}
		case *ssa.Next:
			note(x, "")
			return
		case *ssa.Alloc:
			// a local holding (a copy of) the per-iteration value: its contents; a cell with several stores is a root
			nst := 0
			if x.Referrers() != nil {
				for _, ref := range *x.Referrers() {
					if st, ok := ref.(*ssa.Store); ok && st.Addr == ssa.Value(x) {
						nst++
					}
				}
			}
			if nst > 1 {
				note(x, "")
				return
			}
			if x.Referrers() != nil {
				for _, ref := range *x.Referrers() {
					if st, ok := ref.(*ssa.Store); ok && st.Addr == ssa.Value(x) {
						walk(st.Val, proj)
					}
				}
			}
			return
		}
		if ins, ok := v.(ssa.Instruction); ok {
			var rands []*ssa.Value
			for _, op := range ins.Operands(rands) {
				if *op != nil {
					walk(*op, false)
				}
			}
		}
	}
	walk(v, false)
	return res
}

// GuardGaps finds the incomplete "once" guards of fn.
func GuardGaps(c *Ctx, fn *ssa.Function) []GuardGap {
	loops := Loops(fn)
	if len(loops) == 0 {
		return nil
	}
	headers := map[*ssa.BasicBlock]bool{}
	for _, l := range loops {
		headers[l.Header] = true
	}
	inLoop := func(b *ssa.BasicBlock) bool {
		for _, l := range loops {
			if l.Body[b] {
				return true
			}
		}
		return false
	}
	var res []GuardGap
	for _, b := range fn.Blocks {
		if !inLoop(b) {
			continue
		}
		for _, ins := range b.Instrs {
			lk, ok := ins.(*ssa.Lookup)
			if !ok {
				continue
			}
			m, isMap := types.Unalias(lk.X.Type()).Underlying().(*types.Map)
			if !isMap {
				continue
			}
			// a set: bool or empty-struct values
			switch e := types.Unalias(m.Elem()).Underlying().(type) {
			case *types.Basic:
				if e.Kind() != types.Bool {
					continue
				}
			case *types.Struct:
				if e.NumFields() != 0 {
					continue
				}
			default:
				continue
			}
			// the branch on "not yet there" and the insertion of the same key in the guarded region
			var cond ssa.Value = lk
			if lk.CommaOk {
				cond = nil
				if lk.Referrers() != nil {
					for _, ref := range *lk.Referrers() {
						if ex, ok := ref.(*ssa.Extract); ok && ex.Index == 1 {
							cond = ex
						}
					}
				}
			}
			if cond == nil || cond.Referrers() == nil {
				continue
			}
			var region *ssa.BasicBlock
			for _, ref := range *cond.Referrers() {
				if iff, ok := ref.(*ssa.If); ok {
					region = iff.Block().Succs[1] // value false: not there yet
				}
				if u, ok := ref.(*ssa.UnOp); ok && u.Op.String() == "!" && u.Referrers() != nil {
					for _, r2 := range *u.Referrers() {
						if iff, ok := r2.(*ssa.If); ok {
							region = iff.Block().Succs[0]
						}
					}
				}
			}
			if region == nil || len(region.Preds) != 1 {
				continue
			}
			inserts := false
			var effects []ssa.Instruction
			for _, rb := range fn.Blocks {
				if !region.Dominates(rb) {
					continue
				}
				for _, x := range rb.Instrs {
					switch y := x.(type) {
					case *ssa.MapUpdate:
						if sameContainer(y.Map, lk.X, 0) && sameContainer(y.Key, lk.Index, 0) {
							inserts = true
						}
					case *ssa.Call:
						if _, isBuiltin := y.Call.Value.(*ssa.Builtin); !isBuiltin {
							effects = append(effects, y)
						}
					}
				}
			}
			if !inserts || len(effects) == 0 {
				continue
			}
			kf := iterRootFields(c, lk.Index, headers, inLoop)
			for _, eff := range effects {
				call := eff.(*ssa.Call)
				var missing []string
				for _, a := range call.Call.Args {
					for root, fields := range iterRootFields(c, a, headers, inLoop) {
						k := kf[root]
						if k[""] {
							continue // the key includes the whole per-iteration value
						}
						for f := range fields {
							if !k[f] {
								name := f
								if name == "" {
									name = "(whole)"
								}
								missing = append(missing, fmt.Sprintf("%s.%s", rootName(root), name))
							}
						}
					}
				}
				if len(missing) > 0 {
					sort.Strings(missing)
					var have []string
					for root, fields := range kf {
						for f := range fields {
							have = append(have, rootName(root)+"."+f)
						}
					}
					sort.Strings(have)
					res = append(res, GuardGap{Lookup: lk, Effect: eff, Missing: missing, Key: strings.Join(have, ",")})
				}
			}
		}
	}
	return res
}

func rootName(v ssa.Value) string {
	switch x := v.(type) {
	case *ssa.Alloc:
		if x.Comment != "" {
			return x.Comment
		}
	case *ssa.Phi:
		if x.Comment != "" {
			return x.Comment
		}
	}
	return v.Name()
}
