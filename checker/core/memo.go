package core

import (
	"fmt"
	"sort"
	"go/types"
	"strings"

	"golang.org/x/tools/go/ssa"
)

// Memo is a get-or-compute pattern found in one function: a lookup in a
// persistent keyed container and an update of the same container.
type Memo struct {
	Fn        *ssa.Function
	Lookup    ssa.Instruction
	Update    ssa.Instruction
	Container string    // printable access path of the container
	Root      ssa.Value // parameter / free variable / global the container is reached from
	KeyL      ssa.Value
	KeyU      ssa.Value
	Val       ssa.Value
	ContVal   ssa.Value // the container value of the update (its own dependences select the cache: outer level of a two-level memo)
}

var keyedContainerTypes = map[string]bool{
	"golang.org/x/tools/go/types/typeutil.Map": true,
	"sync.Map": true,
}

func namedPath(t types.Type) string {
	t = types.Unalias(t)
	if p, ok := t.Underlying().(*types.Pointer); ok {
		t = types.Unalias(p.Elem())
	}
	if n, ok := t.(*types.Named); ok && n.Obj().Pkg() != nil {
		return n.Obj().Pkg().Path() + "." + n.Obj().Name()
	}
	return ""
}

// ContainerPath renders the access path through which a container value (a
// map value, or the address of a keyed-container struct) is reached, and the
// root of that path. ok is false if the path goes through something other
// than loads, field selections and single-field accessor calls.
func ContainerPath(v ssa.Value) (path string, root ssa.Value, ok bool) {
	var parts []string
	for i := 0; i < 12; i++ {
		switch x := v.(type) {
		case *ssa.UnOp:
			if x.Op.String() != "*" {
				return "", nil, false
			}
			v = x.X
		case *ssa.FieldAddr:
			_, f := FieldOf(x)
			if f == nil {
				return "", nil, false
			}
			parts = append([]string{f.Name()}, parts...)
			v = x.X
		case *ssa.Field:
			_, f := FieldOf(x)
			if f == nil {
				return "", nil, false
			}
			parts = append([]string{f.Name()}, parts...)
			v = x.X
		case *ssa.Call:
			n, f := MapFieldOrigin(x)
			if n == nil || len(x.Call.Args) == 0 {
				return "", nil, false
			}
			parts = append([]string{f.Name()}, parts...)
			v = x.Call.Args[0]
		case *ssa.Parameter, *ssa.FreeVar, *ssa.Global:
			return x.Name() + "." + strings.Join(parts, "."), x, true
		case *ssa.Alloc:
			// a local cell holding a pointer (e.g. spilled receiver): follow the single store
			var st *ssa.Store
			n := 0
			if x.Referrers() != nil {
				for _, r := range *x.Referrers() {
					if s, ok := r.(*ssa.Store); ok && s.Addr == ssa.Value(x) {
						st = s
						n++
					}
				}
			}
			if n != 1 {
				return "", nil, false
			}
			v = st.Val
		default:
			return "", nil, false
		}
	}
	return "", nil, false
}

// FindMemos returns the get-or-compute patterns of fn.
func FindMemos(fn *ssa.Function) []Memo {
	type site struct {
		ins      ssa.Instruction
		path     string
		root     ssa.Value
		key, val ssa.Value
		cont     ssa.Value
	}
	// a map held in a local variable (e.g. the inner map of a two-level memo, obtained from the outer one or
	// created on a miss) is identified by the SSA value itself; a map that is freshly made on every path is not a cache
	localCont := func(v ssa.Value) (string, ssa.Value, bool) {
		switch x := v.(type) {
		case *ssa.MakeMap:
			return "", nil, false
		case *ssa.Phi:
			fresh := true
			for _, e := range x.Edges {
				if _, isMake := e.(*ssa.MakeMap); !isMake {
					fresh = false
				}
			}
			if fresh {
				return "", nil, false
			}
		case *ssa.Parameter, *ssa.FreeVar, *ssa.Global:
			return "", nil, false
		}
		if v.Name() == "" {
			return "", nil, false
		}
		name := v.Name()
		if phi, ok := v.(*ssa.Phi); ok && phi.Comment != "" {
			name = phi.Comment // the source variable
		}
		return "local:" + name, v, true
	}
	var lookups, updates []site
	for _, b := range fn.Blocks {
		for _, ins := range b.Instrs {
			switch x := ins.(type) {
			case *ssa.Lookup:
				if _, ok := types.Unalias(x.X.Type()).Underlying().(*types.Map); !ok {
					continue
				}
				if p, root, ok := ContainerPath(x.X); ok {
					lookups = append(lookups, site{ins, p, root, x.Index, nil, x.X})
				} else if p, root, ok := localCont(x.X); ok {
					lookups = append(lookups, site{ins, p, root, x.Index, nil, x.X})
				}
			case *ssa.MapUpdate:
				if p, root, ok := ContainerPath(x.Map); ok {
					updates = append(updates, site{ins, p, root, x.Key, x.Value, x.Map})
				} else if p, root, ok := localCont(x.Map); ok {
					updates = append(updates, site{ins, p, root, x.Key, x.Value, x.Map})
				}
			case *ssa.Call:
				sc := x.Call.StaticCallee()
				if sc == nil || sc.Signature.Recv() == nil || len(x.Call.Args) < 2 {
					continue
				}
				if !keyedContainerTypes[namedPath(sc.Signature.Recv().Type())] {
					continue
				}
				p, root, ok := ContainerPath(x.Call.Args[0])
				if !ok {
					continue
				}
				switch sc.Name() {
				case "At", "Load":
					lookups = append(lookups, site{ins, p, root, x.Call.Args[1], nil, x.Call.Args[0]})
				case "Set", "Store", "LoadOrStore":
					if len(x.Call.Args) >= 3 {
						updates = append(updates, site{ins, p, root, x.Call.Args[1], x.Call.Args[2], x.Call.Args[0]})
					}
				}
			}
		}
	}
	var res []Memo
	for _, u := range updates {
		if _, isConst := u.val.(*ssa.Const); isConst {
			continue // visited sets
		}
		for _, l := range lookups {
			if l.path != u.path || l.root != u.root {
				continue
			}
			// get-or-compute: the stored value is not built from the looked-up one
			// (accumulators are not memos) and the looked-up value can be returned.
			lv := l.ins.(ssa.Value)
			if reachesValue(u.val, lv, map[ssa.Value]bool{}) || !flowsToReturn(lv) {
				continue
			}
			res = append(res, Memo{Fn: fn, Lookup: l.ins, Update: u.ins, Container: u.path, Root: u.root, KeyL: l.key, KeyU: u.key, Val: u.val, ContVal: u.cont})
			break
		}
	}
	return res
}

// reachesValue: does v data-depend (operands only, same function) on target?
func reachesValue(v, target ssa.Value, seen map[ssa.Value]bool) bool {
	if v == target {
		return true
	}
	if v == nil || seen[v] || len(seen) > 500 {
		return false
	}
	seen[v] = true
	ins, ok := v.(ssa.Instruction)
	if !ok {
		return false
	}
	var rands []*ssa.Value
	for _, op := range ins.Operands(rands) {
		if *op != nil && reachesValue(*op, target, seen) {
			return true
		}
	}
	return false
}

// flowsToReturn: the value (or an extract / type assertion / phi of it) is a
// result of some return of its function.
func flowsToReturn(v ssa.Value) bool {
	seen := map[ssa.Value]bool{}
	var walk func(v ssa.Value) bool
	walk = func(v ssa.Value) bool {
		if seen[v] || v.Referrers() == nil {
			return false
		}
		seen[v] = true
		for _, r := range *v.Referrers() {
			switch x := r.(type) {
			case *ssa.Return:
				return true
			case *ssa.Extract:
				if x.Index == 0 && walk(x) {
					return true
				}
			case *ssa.TypeAssert:
				if walk(x) {
					return true
				}
			case *ssa.Phi:
				if walk(x) {
					return true
				}
			case *ssa.ChangeType:
				if walk(x) {
					return true
				}
			case *ssa.MakeInterface:
				if walk(x) {
					return true
				}
			}
		}
		return false
	}
	return walk(v)
}

// MemoKeyGaps returns the roots the memoised value depends on that neither the
// key depends on nor are the container's own root. exempt filters roots by type
// (per-run singletons).
func MemoKeyGaps(e *DepEngine, m Memo, exempt func(ssa.Value) bool) []string {
	vd := e.Deps(m.Val)
	kd := e.Deps(m.KeyU)
	if m.ContVal != nil {
		// what selects the container is part of the key (two-level memos)
		for root := range e.Deps(m.ContVal) {
			kd[root] = true
		}
	}
	var gaps []string
	for root := range vd {
		if kd[root] || root == m.Root || (exempt != nil && exempt(root)) {
			continue
		}
		gaps = append(gaps, fmt.Sprintf("%s (%s)", root.Name(), ShortType(root.Type())))
	}
	// field level: the key is built from some fields of a parameter only, the value from other fields (or from the
	// parameter as a whole)
	ks, vs := NewReadPaths(e.c, m.KeyU), NewReadPaths(e.c, m.Val)
	for p, kf := range ks.Fields {
		if ks.Whole[p] || p == m.Root || (exempt != nil && exempt(p)) {
			continue
		}
		var missing []string
		for f := range vs.Fields[p] {
			if !kf[f] {
				missing = append(missing, f)
			}
		}
		sort.Strings(missing)
		if vs.Whole[p] {
			missing = append(missing, "(the value as a whole)")
		}
		if len(missing) > 0 {
			var have []string
			for f := range kf {
				have = append(have, f)
			}
			sort.Strings(have)
			gaps = append(gaps, fmt.Sprintf("%s.{%s} while the key only uses %s.{%s}", p.Name(), strings.Join(missing, ","), p.Name(), strings.Join(have, ",")))
		}
	}
	return gaps
}
