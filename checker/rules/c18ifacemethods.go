package rules

import (
	"fmt"
	"strings"

	"golang.org/x/tools/go/ssa"

	"verif/checker/core"
)

// c18ifaceMethods (R18.ifacemethods): the methods made callable by converting
// a value to an interface are ALL the methods of the interface, including those
// it gets from embedded interfaces. Code that enumerates an interface's methods
// with the *explicit* accessors of go/types (NumExplicitMethods / ExplicitMethod)
// must also enumerate its embedded types (NumEmbeddeds / EmbeddedType) in the
// same function or one it calls; the complete accessors (NumMethods / Method)
// need nothing else. Otherwise a method promoted from an embedded interface
// (`type Task interface { Finalizer; Run() }`) is not marked and its
// implementations drop out of the reachable set.
func c18ifaceMethods(c *core.Ctx, r *core.Report) {
	r.Explain("R18.ifacemethods: every function of analysis/reachability that lists an interface's methods with ExplicitMethod/NumExplicitMethods also enumerates EmbeddedType/NumEmbeddeds (itself or in its call cone), or uses the complete accessors Method/NumMethods.")
	g := c.RepoGraph()
	n := 0
	for _, fn := range c.RepoFunctions() {
		if c.FuncPkgRel(fn) != "analysis/reachability" || strings.HasSuffix(c.Fset.Position(fn.Pos()).Filename, "_test.go") {
			continue
		}
		calls := func(f *ssa.Function) map[string]bool {
			res := map[string]bool{}
			for _, b := range f.Blocks {
				for _, ins := range b.Instrs {
					if call, ok := ins.(*ssa.Call); ok {
						if sc := call.Call.StaticCallee(); sc != nil && sc.Signature.Recv() != nil && core.ShortType(sc.Signature.Recv().Type()) == "*types.Interface" {
							res[sc.Name()] = true
						}
					}
				}
			}
			return res
		}
		own := calls(fn)
		if !own["ExplicitMethod"] && !own["NumExplicitMethods"] {
			continue
		}
		n++
		embedded := own["EmbeddedType"] || own["NumEmbeddeds"]
		for f := range g.Cone(false, fn) {
			cs := calls(f)
			if cs["EmbeddedType"] || cs["NumEmbeddeds"] {
				embedded = true
			}
		}
		r.Check(embedded, "R18.ifacemethods", c.FuncName(fn)+"|explicit-and-embedded", c.Pos(fn.Pos()),
			"explicit methods are listed together with the embedded interfaces",
			"the methods of an interface are listed with ExplicitMethod only, its embedded interfaces are not enumerated: a method promoted from an embedded interface (`type Task interface { Finalizer; Run() }`) is not marked when a value is converted to the interface, and its implementation - which runs - is missing from the reachable set")
	}
	if n == 0 {
		r.OK("R18.ifacemethods", "analysis/reachability|method-listing", "", "no function lists interface methods with the explicit-only accessors")
	}
	r.Extra["R18.ifacemethods_sites"] = fmt.Sprint(n)
}
