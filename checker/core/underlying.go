package core

import (
	"go/ast"
	"go/types"
	"sort"
	"strings"
)

// TypeTest is a type assertion or type-switch case testing a go/types.Type
// against a structural type (*types.Pointer, *types.Array, ...).
type TypeTest struct {
	Pos     string
	PkgRel  string
	Func    string
	Operand string // source text of the tested expression
	Target  string // e.g. "*types.Array"
	Guard   string // "underlying" if the operand is visibly an underlying/core type, else ""
	Node    ast.Node
}

var structuralTargets = map[string]bool{"Pointer": true, "Array": true, "Slice": true, "Map": true, "Chan": true, "Struct": true,
	"Signature": true, "Basic": true, "Interface": true, "Tuple": true}

// underlyingProducers are functions whose result is never a *types.Named / alias.
var underlyingProducers = map[string]bool{"Underlying": true, "CoreType": true, "coreType": true}

func isTypesType(t types.Type) bool {
	if t == nil {
		return false
	}
	n, ok := types.Unalias(t).(*types.Named)
	return ok && n.Obj().Pkg() != nil && n.Obj().Pkg().Path() == "go/types" && n.Obj().Name() == "Type"
}

func structuralTarget(t types.Type) string {
	p, ok := types.Unalias(t).(*types.Pointer)
	if !ok {
		return ""
	}
	n, ok := types.Unalias(p.Elem()).(*types.Named)
	if !ok || n.Obj().Pkg() == nil || n.Obj().Pkg().Path() != "go/types" || !structuralTargets[n.Obj().Name()] {
		return ""
	}
	return "*types." + n.Obj().Name()
}

// StructuralTypeTests lists the tests in non-test repository code.
func StructuralTypeTests(c *Ctx) []TypeTest {
	var res []TypeTest
	for _, p := range c.RepoPkgs() {
		rel := strings.TrimPrefix(p.PkgPath, Module+"/")
		for _, f := range p.Syntax {
			if strings.HasSuffix(c.Fset.Position(f.Pos()).Filename, "_test.go") {
				continue
			}
			for _, d := range f.Decls {
				fd, ok := d.(*ast.FuncDecl)
				if !ok || fd.Body == nil {
					continue
				}
				fname := fd.Name.Name
				if fd.Recv != nil && len(fd.Recv.List) > 0 {
					fname = ShortType(p.TypesInfo.TypeOf(fd.Recv.List[0].Type)) + "." + fname
				}
				// local variables assigned from an underlying producer
				under := map[types.Object]bool{}
				ast.Inspect(fd.Body, func(n ast.Node) bool {
					as, ok := n.(*ast.AssignStmt)
					if !ok || len(as.Lhs) != len(as.Rhs) {
						return true
					}
					for i, rhs := range as.Rhs {
						if isUnderlyingExpr(rhs, nil) {
							if id, ok := as.Lhs[i].(*ast.Ident); ok {
								if o := p.TypesInfo.ObjectOf(id); o != nil {
									under[o] = true
								}
							}
						}
					}
					return true
				})
				add := func(x ast.Expr, target types.Type, at ast.Node, namedCase bool) {
					if !isTypesType(p.TypesInfo.TypeOf(x)) {
						return
					}
					tg := structuralTarget(target)
					if tg == "" {
						return
					}
					guard := ""
					switch {
					case isUnderlyingExpr(x, func(id *ast.Ident) bool { return under[p.TypesInfo.ObjectOf(id)] }):
						guard = "underlying"
					case namedCase:
						guard = "named-case" // the same switch handles *types.Named explicitly
					case tg == "*types.Tuple":
						guard = "tuple" // tuple types are never named
					case tg == "*types.Signature" && isFuncObjectType(x, p.TypesInfo):
						guard = "func-object" // the type of a *types.Func / *ssa.Builtin / *ssa.Function object is an unnamed signature
					case tg == "*types.Pointer" && isAddressInstrType(x, p.TypesInfo):
						guard = "address-instruction" // Alloc, FieldAddr, IndexAddr and Global values have an unnamed pointer type by construction
					}
					res = append(res, TypeTest{Pos: c.Pos(at.Pos()), PkgRel: rel, Func: rel + "." + fname, Operand: types.ExprString(x), Target: tg, Guard: guard, Node: at})
				}
				ast.Inspect(fd.Body, func(n ast.Node) bool {
					switch x := n.(type) {
					case *ast.TypeAssertExpr:
						if x.Type != nil {
							add(x.X, p.TypesInfo.TypeOf(x.Type), x, false)
						}
					case *ast.TypeSwitchStmt:
						var tag ast.Expr
						switch a := x.Assign.(type) {
						case *ast.AssignStmt:
							tag = a.Rhs[0].(*ast.TypeAssertExpr).X
						case *ast.ExprStmt:
							tag = a.X.(*ast.TypeAssertExpr).X
						}
						namedCase := false
						for _, cl := range x.Body.List {
							for _, te := range cl.(*ast.CaseClause).List {
								if t := p.TypesInfo.TypeOf(te); t != nil && strings.HasSuffix(t.String(), "go/types.Named") {
									namedCase = true
								}
							}
						}
						for _, cl := range x.Body.List {
							for _, te := range cl.(*ast.CaseClause).List {
								add(tag, p.TypesInfo.TypeOf(te), te, namedCase)
							}
						}
					}
					return true
				})
			}
		}
	}
	sort.Slice(res, func(i, j int) bool { return res[i].Pos < res[j].Pos })
	return res
}

func isUnderlyingExpr(e ast.Expr, isUnderVar func(*ast.Ident) bool) bool {
	switch x := ast.Unparen(e).(type) {
	case *ast.CallExpr:
		switch f := x.Fun.(type) {
		case *ast.SelectorExpr:
			return underlyingProducers[f.Sel.Name]
		case *ast.Ident:
			return underlyingProducers[f.Name]
		}
	case *ast.Ident:
		return isUnderVar != nil && isUnderVar(x)
	}
	return false
}

// isFuncObjectType: e is `X.Type()` with X a *types.Func, *ssa.Builtin or *ssa.Function.
func isFuncObjectType(e ast.Expr, info *types.Info) bool {
	call, ok := ast.Unparen(e).(*ast.CallExpr)
	if !ok {
		return false
	}
	se, ok := call.Fun.(*ast.SelectorExpr)
	if !ok || se.Sel.Name != "Type" {
		return false
	}
	t := info.TypeOf(se.X)
	if t == nil {
		return false
	}
	s := t.String()
	return strings.HasSuffix(s, "go/types.Func") || strings.HasSuffix(s, "ssa.Builtin") || strings.HasSuffix(s, "ssa.Function")
}

// isAddressInstrType: e is `X.Type()` with X an *ssa.Alloc, *ssa.FieldAddr, *ssa.IndexAddr or *ssa.Global.
func isAddressInstrType(e ast.Expr, info *types.Info) bool {
	call, ok := ast.Unparen(e).(*ast.CallExpr)
	if !ok {
		return false
	}
	se, ok := call.Fun.(*ast.SelectorExpr)
	if !ok || se.Sel.Name != "Type" {
		return false
	}
	t := info.TypeOf(se.X)
	if t == nil {
		return false
	}
	s := t.String()
	for _, k := range []string{"ssa.Alloc", "ssa.FieldAddr", "ssa.IndexAddr", "ssa.Global"} {
		if strings.HasSuffix(s, k) {
			return true
		}
	}
	return false
}
