package rules

import (
	"fmt"
	"go/ast"
	"go/types"
	"strings"

	"golang.org/x/tools/go/ssa"

	"verif/checker/core"
)

func init() { Registry["C03"] = c03 }

func c03(c *core.Ctx, r *core.Report) {
	r.Explain("R03.visit: the backward traversal backtrace.(*Visitor).visit handles every node kind that summaries can contain (all dataflow.GraphNode implementers of package dataflow; it iterates both In() and Out() maps, so every edge-endpoint kind can be popped; the default arm panics). R03.entry: a backtrace point is recognised in all three call forms (shared rule with C04: IsEntrypointNode, IsMatchingCodeIDWithCallee, scanEntryPoints). R03.trace: every VisitorNode created in package backtrace links Prev to the node being expanded (nil only for the root), the DFS stack is only grown by addNext (and the root seeding), and findTrace follows Prev only - so every reported trace is a connected chain ending at the backtrace-point argument. R03.base: isBaseCase consults In() of the node (a node with inward flow is never a base case on that ground).")
	r.NotDecided("completeness of traces over all programs and executions; the tuple-index filter reads the single in-edge kept per source (C17 R17.card known finding).")
	// ---- R03.visit
	d := c.FindDispatch("analysis/backtrace", "Visitor.visit", dfPath, "GraphNode")
	if d == nil {
		r.Fail("infra.anchor-unresolved", "R03.visit|analysis/backtrace.Visitor.visit", "", "not found")
	} else {
		exhaustive(c, r, "R03.visit", d, nil, "the backward traversal panics (default arm) or silently stops when it pops a node of this kind")
		r.Floor("R03.visit", 11, "11 node kinds")
	}
	// ---- R03.entry
	callFormRules(c, r, "R03.entry")

	// ---- R03.trace
	p := c.Pkg("analysis/backtrace")
	if p == nil {
		return
	}
	nLit := 0
	for _, f := range p.Syntax {
		if strings.HasSuffix(c.Fset.Position(f.Pos()).Filename, "_test.go") {
			continue
		}
		for _, decl := range f.Decls {
			fd, ok := decl.(*ast.FuncDecl)
			if !ok || fd.Body == nil {
				continue
			}
			ast.Inspect(fd.Body, func(n ast.Node) bool {
				cl, ok := n.(*ast.CompositeLit)
				if !ok {
					return true
				}
				nt, ok := p.TypesInfo.TypeOf(cl).(*types.Named)
				if !ok || nt.Obj().Name() != "VisitorNode" {
					return true
				}
				nLit++
				var prev ast.Expr
				for _, el := range cl.Elts {
					if kv, ok := el.(*ast.KeyValueExpr); ok {
						if id, ok := kv.Key.(*ast.Ident); ok && id.Name == "Prev" {
							prev = kv.Value
						}
					}
				}
				key := fmt.Sprintf("analysis/backtrace.%s|VisitorNode#%d", fd.Name.Name, nLit)
				switch {
				case prev == nil:
					r.Fail("R03.trace", key, c.Pos(cl.Pos()), "VisitorNode literal does not set Prev: the trace through this node is disconnected")
				case p.TypesInfo.Types[prev].IsNil():
					// root: must be in the function that seeds the stack (visit), not in addNext
					r.Check(fd.Name.Name != "addNext", "R03.trace", key, c.Pos(cl.Pos()), "root node (Prev nil) is created where the traversal is seeded", "addNext creates a node without predecessor: traces are cut")
				default:
					// Prev must be a parameter of type *VisitorNode (the node being expanded)
					id, isId := ast.Unparen(prev).(*ast.Ident)
					isParam := false
					if isId {
						obj := p.TypesInfo.ObjectOf(id)
						for _, fl := range fd.Type.Params.List {
							for _, nm := range fl.Names {
								if p.TypesInfo.ObjectOf(nm) == obj {
									isParam = true
								}
							}
						}
					}
					r.Check(isParam, "R03.trace", key, c.Pos(cl.Pos()), "Prev is the node being expanded (parameter of addNext)", "Prev is not the node being expanded: the reported trace is not a connected sequence of steps")
				}
				return true
			})
		}
	}
	// stack growth only in addNext / seeding
	if fd, pp := c.Decl("analysis/backtrace", "Visitor.visit"); fd != nil {
		grows := 0
		ast.Inspect(fd.Body, func(n ast.Node) bool {
			call, ok := n.(*ast.CallExpr)
			if !ok {
				return true
			}
			if id, ok := call.Fun.(*ast.Ident); ok && id.Name == "append" && len(call.Args) > 0 && isWorkQueueType(pp.TypesInfo.TypeOf(call.Args[0])) {
				grows++
			}
			return true
		})
		r.Check(grows == 0, "R03.trace", "analysis/backtrace.Visitor.visit|stack-growth", c.Pos(fd.Pos()), "the DFS stack is only grown through addNext (which links Prev and deduplicates)",
			fmt.Sprintf("visit appends to the DFS stack directly (%d sites): nodes pushed that way bypass Prev linking and the seen/lasso checks", grows))
	}
	if fd, _ := c.Decl("analysis/backtrace", "findTrace"); fd != nil {
		followsPrev := exprAny(fd.Body, func(n ast.Node) bool {
			as, ok := n.(*ast.AssignStmt)
			if !ok || len(as.Rhs) != 1 {
				return false
			}
			se, ok := as.Rhs[0].(*ast.SelectorExpr)
			return ok && se.Sel.Name == "Prev"
		})
		r.Check(followsPrev, "R03.trace", "analysis/backtrace.findTrace|follows-prev", c.Pos(fd.Pos()), "trace reconstruction walks the Prev chain", "findTrace does not walk the Prev chain")
	} else {
		r.Fail("infra.anchor-unresolved", "R03.trace|findTrace", "", "not found")
	}
	r.Floor("R03.trace", 4, "root + addNext literal + stack growth + findTrace")

	// ---- R03.base
	if fd, _ := c.Decl("analysis/backtrace", "isBaseCase"); fd != nil {
		usesIn := exprAny(fd.Body, func(n ast.Node) bool {
			call, ok := n.(*ast.CallExpr)
			if !ok {
				return false
			}
			se, ok := call.Fun.(*ast.SelectorExpr)
			return ok && se.Sel.Name == "In"
		})
		r.Check(usesIn, "R03.base", "analysis/backtrace.isBaseCase|in-edges", c.Pos(fd.Pos()), "base-case detection consults the node's incoming edges", "isBaseCase no longer looks at In(): nodes with inward flow may be reported as origins, cutting traces short")
	} else {
		r.Fail("infra.anchor-unresolved", "R03.base|isBaseCase", "", "not found")
	}
	// ---- R03.seenkey
	seenEnqueueRule(c, r, "R03.seenenq", "analysis/backtrace")
	seenKeyRule(c, r, "R03.seenkey", "analysis/backtrace", "the trace behind the second entry into a shared helper chain stops at the inner call, its origin appears in no trace")
	treeKeyRule(c, r, "R03.seenkey", "backward states with different outer callers are merged")
	c03param(c, r)
	apGrammarRule(c, r, "R03.apgrammar", "analysis/backtrace")
	stopsRule(c, r, "R03.stops", "analysis/backtrace", 3)
	edgeLoopRule(c, r, "R03.edgeloop", "analysis/backtrace", "Visitor.visit", 1)
	buildRule(c, r, "R03.build", "analysis/backtrace", "Visitor.visit", 3,
		"in eager mode a function that was not summarised by the first pass (a function without predefined summary in a package that has some, a pkg-filter miss) is skipped by the backward traversal with a trace-level message only: its inputs appear in no trace, while the on-demand configuration - and the taint analysis in both configurations - follow them", true)
	ensureRule(c, r, "R03.ensure", "analysis/backtrace", "Visitor.visit", 8, "In", "Out")
	memoRule(c, r, "R03.memo", func(fn *ssa.Function, rel string) bool { return rel == "analysis/backtrace" }, "stale traversal state hides traces")
}
