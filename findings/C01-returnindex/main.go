package main

import "fmt"

func source() string { return "tainted" }
func sink(s string)  { fmt.Println(s) }

// one return instruction, three results: the tainted value is result #2
func three() (string, string, string) {
	return "a", "b", source()
}

// control: two results
func two() (string, string) {
	return "a", source()
}

func main() {
	_, _, c := three()
	sink(c) // flow: must be reported
	_, d := two()
	sink(d) // flow (control)
}
