package rules

import (
	"fmt"
	"sort"
	"strings"

	"golang.org/x/tools/go/ssa"

	"verif/checker/core"
)

// c05build (R05.build): the taint traversal builds a missing summary whenever it
// needs one: with a pkg-filter (or functions skipped by the eager pass) a
// summary can be missing in eager mode too, so a build of a missing summary in
// taint.Visitor and its helpers must not be conditional on the
// summarize-on-demand option alone. (The only sanctioned use of the option is
// together with unsafe-ignore-non-summarized, the documented unsound switch.)
// Decided on SSA with helpers inlined: for every call that runs the
// intra-procedural analysis on demand, the conditions it is control dependent
// on - in its function and at the call sites leading to it - are sliced; one
// that reads Config.SummarizeOnDemand without UnsafeIgnoreNonSummarized is a
// violation.
func c05build(c *core.Ctx, r *core.Report) {
	buildRule(c, r, "R05.build", "analysis/taint", "Visitor.Visit", 4,
		"in eager mode with a pkg-filter the summary of a filtered-out caller stays unbuilt, the traversal cannot return into it and the (source, sink) pairs differ between configurations")
}

// buildRule is R05.build for the traversal pkgRel.fnName (also R03.build on the backward visitor).
func buildRule(c *core.Ctx, r *core.Report, rule, pkgRel, fnName string, floor int, consequence string, aggregate ...bool) {
	allBad := map[string]bool{}
	gated := 0
	r.Explain(rule + ": every call that builds a missing summary in the traversal (helpers inlined) is control dependent - in its function and at the call sites leading to it - on no condition that reads Config.SummarizeOnDemand without UnsafeIgnoreNonSummarized.")
	root := c.Func(pkgRel, fnName)
	if root == nil {
		r.Fail("infra.anchor-unresolved", rule+"|"+pkgRel+"."+fnName, "", "not found")
		return
	}
	r.Analysed(pkgRel + "." + fnName)
	g := c.RepoGraph()
	builds := func(fn *ssa.Function) bool {
		if fn == nil {
			return false
		}
		if fn.Name() == "RunIntraProcedural" || fn.Name() == "BuildSummary" {
			return true
		}
		if c.FuncPkgRel(fn) != pkgRel {
			return false
		}
		for f := range g.Cone(false, fn) {
			if f.Name() == "RunIntraProcedural" || f.Name() == "BuildSummary" {
				return true
			}
		}
		return false
	}
	n := 0
	seen := map[string]int{}
	for _, ii := range core.InlinedInstrs(c, root, c.Depth(2), func(ins ssa.Instruction) bool {
		call, ok := ins.(*ssa.Call)
		if !ok {
			return false
		}
		sc := call.Call.StaticCallee()
		// the outermost build calls only (what they call is their business)
		if sc == nil || !builds(sc) {
			return false
		}
		if sc.Name() == "onDemandIntraProcedural" {
			return true
		}
		return c.FuncPkgRel(sc) != pkgRel && call.Parent().Name() != "onDemandIntraProcedural"
	}) {
		n++
		call := ii.Ins.(*ssa.Call)
		var bad []string
		for _, cond := range ii.ControlConds() {
			sl := cond.Slice(cond.Ins.(*ssa.If).Cond)
			if sl.HasSuffix("SummarizeOnDemand") && !sl.HasSuffix("UnsafeIgnoreNonSummarized") {
				pos := cond.Ins.(*ssa.If).Cond.Pos()
				if !pos.IsValid() {
					for _, x := range cond.Ins.Block().Instrs {
						if x.Pos().IsValid() {
							pos = x.Pos()
						}
					}
				}
				bad = append(bad, c.Pos(pos))
			}
		}
		if len(aggregate) > 0 && aggregate[0] {
			if len(bad) > 0 {
				gated++
			}
			for _, b := range bad {
				allBad[b] = true
			}
			continue
		}
		key := fmt.Sprintf("%s|build", c.FuncName(call.Parent()))
		seen[key]++
		key = fmt.Sprintf("%s#%d", key, seen[key])
		r.Check(len(bad) == 0, rule, key, c.Pos(call.Pos()), "the build of a missing summary does not depend on the summarize-on-demand option alone",
			"a missing summary is only built when summarize-on-demand is set (branch at "+strings.Join(bad, ", ")+"): "+consequence)
	}
	if len(aggregate) > 0 && aggregate[0] {
		var bs []string
		for b := range allBad {
			bs = append(bs, b)
		}
		sort.Strings(bs)
		r.Check(len(bs) == 0, rule, pkgRel+"."+fnName+"|builds-not-gated-by-summarize-on-demand", c.Pos(root.Pos()),
			fmt.Sprintf("none of the %d builds of a missing summary depends on the summarize-on-demand option alone", n),
			fmt.Sprintf("%d of the %d builds of a missing summary happen only when summarize-on-demand is set (branches at %s): %s", gated, n, strings.Join(bs, ", "), consequence))
	}
	if n < floor {
		r.Fail("infra.floor", rule, "", fmt.Sprintf("only %d on-demand build call(s) found in the traversal", n))
	}
}
