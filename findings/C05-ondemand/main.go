package main

import "fmt"

var g string

func source1() string { return "tainted" }
func sink2(s *string)  { fmt.Println(*s) }

func w() { g = source1() }
func r() { sink2(&g) } // the only use of g in r is as a call argument

func main() {
	w()
	r()
}
