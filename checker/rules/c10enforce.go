package rules

import (
	"fmt"
	"go/token"
	"sort"
	"strings"

	"golang.org/x/tools/go/ssa"

	"verif/checker/core"
)

// c10enforce (R10.enforce): when the inter-procedural graph is built, the
// specification lookup is made for EVERY call node that has a callee and no
// callee summary yet - whatever else is known about the callee (a summary built
// from its body may exist: a method with a function contract that implements a
// contract-less interface method, or a function matched by pkg-filter, is
// summarised by the eager pass). Decided on the SSA of BuildGraph with helpers
// inlined: the call of LoadExternalContractSummary is control dependent only on
// the loops enumerating the call nodes and on nil tests (summary == nil,
// node.Callee() != nil, node.CalleeSummary == nil).
func c10enforce(c *core.Ctx, r *core.Report) {
	fn := c.Func("analysis/dataflow", "InterProceduralFlowGraph.BuildGraph")
	if fn == nil {
		r.Fail("infra.anchor-unresolved", "R10.enforce|BuildGraph", "", "not found")
		return
	}
	headers := map[*ssa.BasicBlock]bool{}
	seenFn := map[*ssa.Function]bool{}
	isHeader := func(b *ssa.BasicBlock) bool {
		if f := b.Parent(); !seenFn[f] {
			seenFn[f] = true
			for _, l := range core.Loops(f) {
				headers[l.Header] = true
			}
		}
		return headers[b]
	}
	isNilTest := func(v ssa.Value) bool {
		bo, ok := v.(*ssa.BinOp)
		if !ok || (bo.Op != token.EQL && bo.Op != token.NEQ) {
			return false
		}
		for _, x := range []ssa.Value{bo.X, bo.Y} {
			if k, isC := x.(*ssa.Const); isC && k.IsNil() {
				return true
			}
		}
		return false
	}
	n := 0
	var bad []string
	for _, ii := range core.InlinedInstrs(c, fn, c.Depth(2), func(ins ssa.Instruction) bool {
		call, ok := ins.(*ssa.Call)
		if !ok {
			return false
		}
		sc := call.Call.StaticCallee()
		return sc != nil && sc.Name() == "LoadExternalContractSummary"
	}) {
		n++
		for _, cond := range ii.ControlConds() {
			iff := cond.Ins.(*ssa.If)
			if isHeader(iff.Block()) || isNilTest(iff.Cond) {
				continue
			}
			pos := iff.Cond.Pos()
			for _, x := range iff.Block().Instrs {
				if !pos.IsValid() && x.Pos().IsValid() {
					pos = x.Pos()
				}
			}
			sl := cond.Slice(iff.Cond)
			var ps []string
			for p := range sl.Paths {
				ps = append(ps, p)
			}
			sort.Strings(ps)
			if len(ps) > 6 {
				ps = ps[:6]
			}
			bad = append(bad, fmt.Sprintf("%s (reads %s)", c.Pos(pos), strings.Join(ps, ", ")))
		}
	}
	if n == 0 {
		r.Fail("R10.enforce", "analysis/dataflow.InterProceduralFlowGraph.BuildGraph|contract-lookup-unconditional", c.Pos(fn.Pos()), "BuildGraph no longer looks up the specification of unresolved call nodes (no call of LoadExternalContractSummary in its cone)")
		return
	}
	sort.Strings(bad)
	r.Check(len(bad) == 0, "R10.enforce", "analysis/dataflow.InterProceduralFlowGraph.BuildGraph|contract-lookup-unconditional", c.Pos(fn.Pos()),
		"the specification lookup is made for every call node with a callee and no callee summary (controlled by enumeration loops and nil tests only)",
		"the specification lookup for a call node is skipped under a condition that is not a nil test of the node: "+strings.Join(bad, "; ")+" - a function that has both a body summary and a specification (method implementing a contract-less interface, pkg-filter match) is then analysed from its body and the specification is ignored")
}
