package main

import "fmt"

type Node struct{ val int }

type A struct{ p *Node }
type B struct{ p *Node }

func conv(a A) B { return B(a) } // *ssa.ChangeType on a struct value (2 pointer-analysis nodes)

func main() {
	n := &Node{1}
	b := conv(A{n})
	q := b.p
	q.val = 42
	fmt.Println("same:", q == n, "n.val =", n.val) // same: true n.val = 42
}
