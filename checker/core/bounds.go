package core

import (
	"go/token"
	"go/types"

	"golang.org/x/tools/go/ssa"
)

// ForeignBound is a comparison of a value with len(Y) where the same value is
// used, in the same function, to index collections none of which is Y.
type ForeignBound struct {
	Cmp     *ssa.BinOp
	Index   ssa.Value
	LenOf   ssa.Value
	Indexed []string // descriptions of the collections indexed by Index
}

func lenOperand(v ssa.Value) ssa.Value {
	call, ok := v.(*ssa.Call)
	if !ok {
		return nil
	}
	b, ok := call.Call.Value.(*ssa.Builtin)
	if !ok || b.Name() != "len" || len(call.Call.Args) != 1 {
		return nil
	}
	return call.Call.Args[0]
}

// sameContainer: structural equality of two container expressions (loads of
// the same address expression, same field chains, same lookups).
func sameContainer(a, b ssa.Value, d int) bool {
	if a == b {
		return true
	}
	if d > 8 {
		return false
	}
	switch x := a.(type) {
	case *ssa.UnOp:
		y, ok := b.(*ssa.UnOp)
		return ok && x.Op == y.Op && sameContainer(x.X, y.X, d+1)
	case *ssa.FieldAddr:
		y, ok := b.(*ssa.FieldAddr)
		return ok && x.Field == y.Field && sameContainer(x.X, y.X, d+1)
	case *ssa.Field:
		y, ok := b.(*ssa.Field)
		return ok && x.Field == y.Field && sameContainer(x.X, y.X, d+1)
	case *ssa.Lookup:
		y, ok := b.(*ssa.Lookup)
		return ok && sameContainer(x.X, y.X, d+1) && sameContainer(x.Index, y.Index, d+1)
	case *ssa.Extract:
		y, ok := b.(*ssa.Extract)
		return ok && x.Index == y.Index && sameContainer(x.Tuple, y.Tuple, d+1)
	case *ssa.IndexAddr:
		y, ok := b.(*ssa.IndexAddr)
		return ok && sameContainer(x.X, y.X, d+1) && sameContainer(x.Index, y.Index, d+1)
	case *ssa.Index:
		y, ok := b.(*ssa.Index)
		return ok && sameContainer(x.X, y.X, d+1) && sameContainer(x.Index, y.Index, d+1)
	}
	return false
}

// ForeignBounds lists the foreign bounds of fn (intra-procedural).
func ForeignBounds(fn *ssa.Function) []ForeignBound {
	type idx struct {
		coll ssa.Value
	}
	indexed := map[ssa.Value][]ssa.Value{} // index value -> collections
	for _, b := range fn.Blocks {
		for _, ins := range b.Instrs {
			switch x := ins.(type) {
			case *ssa.IndexAddr:
				indexed[x.Index] = append(indexed[x.Index], x.X)
			case *ssa.Index:
				indexed[x.Index] = append(indexed[x.Index], x.X)
			case *ssa.Lookup:
				if _, isMap := types.Unalias(x.X.Type()).Underlying().(*types.Map); !isMap {
					indexed[x.Index] = append(indexed[x.Index], x.X)
				}
			}
		}
	}
	var res []ForeignBound
	for _, b := range fn.Blocks {
		for _, ins := range b.Instrs {
			bo, ok := ins.(*ssa.BinOp)
			if !ok {
				continue
			}
			switch bo.Op {
			case token.LSS, token.LEQ, token.GTR, token.GEQ:
			default:
				continue
			}
			var iv, lenOf ssa.Value
			if l := lenOperand(bo.Y); l != nil {
				iv, lenOf = bo.X, l
			} else if l := lenOperand(bo.X); l != nil {
				iv, lenOf = bo.Y, l
			}
			if iv == nil {
				continue
			}
			colls := indexed[iv]
			if len(colls) == 0 || isRangeIndex(iv) {
				continue // `for i := range a { b[i] ... }`: a parallel collection indexed by a range index
			}
			match := false
			var descs []string
			for _, cl := range colls {
				if sameContainer(cl, lenOf, 0) {
					match = true
				}
				descs = append(descs, DescribeValue(cl, 0))
			}
			if !match {
				res = append(res, ForeignBound{Cmp: bo, Index: iv, LenOf: lenOf, Indexed: descs})
			}
		}
	}
	return res
}

// isRangeIndex: v is the (incremented) index variable of a range loop over a slice/array.
func isRangeIndex(v ssa.Value) bool {
	if bo, ok := v.(*ssa.BinOp); ok && bo.Op == token.ADD {
		v = bo.X
	}
	phi, ok := v.(*ssa.Phi)
	return ok && phi.Comment == "rangeindex"
}
