package rules

import (
	"fmt"
	"go/ast"
	"go/constant"
	"go/token"
	"go/types"
	"strings"

	"verif/checker/core"
)

func init() { Registry["C07"] = c07 }

func c07(c *core.Ctx, r *core.Report) {
	r.Explain("R07.dispatch: every type switch with a panicking default over a closed interface (ssa.Instruction, ssa.Value, ssa.CallInstruction, ssa.Node, dataflow.GraphNode) in the analysis packages is exhaustive over the interface's implementers as type-checked in Argot's own dependency graph (discovered, not listed); for callee-value switches the implementer set is restricted by a checker-side table of SSA kinds that can have function/interface type.")
	r.Explain("R07.mode: the premise of the MultiConvert exception - every analysis.LoadProgramOptions literal outside tests sets BuildMode with ssa.InstantiateGenerics.")
	r.Explain("R07.enqueue: necessary condition for termination of the three graph traversals - every append to the work queue is preceded (dominating if/return at function-body level) by a not-seen test on a key, paired with insertion of that key, and in both visitors by a lasso test over both the call trace and the closure trace.")
	r.Explain("R07.deferbound: the defer analysis pushes a defer onto a stack only after scanning the whole stack for an earlier occurrence (bounds stack length by the number of defer statements, which is what makes its fixpoint loop terminate on defers inside loops).")
	r.Explain("R07.worklist: the intra-procedural worklist (lang.RunForwardIterative) only re-queues successors when ChangedOnEndBlock() is true, and the block loop dequeues before visiting.")
	r.NotDecided("termination or crash-freedom on all inputs; the ~130 explicit panic sites behind data-dependent guards are inventoried (R07.panics, info) but not gated.")

	// ---- R07.dispatch
	ds := panickingDispatchers(c)
	r.Floor("R07.dispatch", 37+30+11+11, "InstrSwitch, genInstr, addInEdge, backtrace.visit and the escape go-callee switch were confirmed by reading")
	seenAnchor := map[string]bool{}
	for _, d := range ds {
		seenAnchor[d.Func] = true
		exc := map[string]string{}
		switch core.ShortType(d.Iface) {
		case "ssa.Instruction":
			exc["*ssa.MultiConvert"] = multiConvertWhy
		case "ssa.Value":
			if isCalleeValueExpr(tagExpr(d.Switch), d.Pkg.TypesInfo) {
				for k, v := range valueNeverFuncOrIface {
					exc[k] = "callee operand: " + v
				}
			} else {
				exc["*ssa.MultiConvert"] = multiConvertWhy
			}
		}
		exhaustive(c, r, "R07.dispatch", d, exc, "a value of this kind reaching the switch crashes the analysis")
	}
	// non-vacuity: the dispatchers confirmed by reading must still be discovered; they are identified by package and
	// dispatched interface (not by function name), so that moving an arm or a nested switch into a helper of the
	// same package does not look like a disappearance
	seenPkgIface := map[string]bool{}
	for _, d := range ds {
		pkg := d.Func
		if i := strings.LastIndex(pkg, "/"); i >= 0 {
			if j := strings.Index(pkg[i:], "."); j >= 0 {
				pkg = pkg[:i+j]
			}
		}
		seenPkgIface[pkg+"|"+core.ShortType(d.Iface)] = true
	}
	for _, anchor := range []string{"analysis/lang|ssa.Instruction", "internal/pointer|ssa.Instruction", "analysis/dataflow|dataflow.GraphNode",
		"analysis/backtrace|dataflow.GraphNode", "analysis/escape|ssa.Value"} {
		if !seenPkgIface[anchor] {
			r.Fail("infra.anchor-unresolved", "R07.dispatch|"+anchor, "", "no panicking dispatcher over this interface is discovered in this package any more (the confirmed ones were InstrSwitch, genInstr, addInEdge, backtrace visit, the escape go-callee switch)")
		}
	}

	c07nil(c, r)
	c07budget(c, r)
	c07lasso(c, r)

	// ---- R07.mode
	r.Floor("R07.mode", 10, "14 LoadProgramOptions literals measured")
	for _, p := range c.RepoPkgs() {
		for _, f := range p.Syntax {
			fname := c.Fset.Position(f.Pos()).Filename
			if strings.HasSuffix(fname, "_test.go") {
				continue
			}
			ast.Inspect(f, func(n ast.Node) bool {
				cl, ok := n.(*ast.CompositeLit)
				if !ok {
					return true
				}
				t := p.TypesInfo.TypeOf(cl)
				nt, ok := t.(*types.Named)
				if !ok || nt.Obj().Name() != "LoadProgramOptions" || nt.Obj().Pkg().Path() != core.Module+"/analysis" {
					return true
				}
				key := strings.TrimPrefix(p.PkgPath, core.Module+"/") + "|" + enclosingFuncName(f, cl.Pos())
				var mode ast.Expr
				for _, e := range cl.Elts {
					if kv, ok := e.(*ast.KeyValueExpr); ok {
						if id, ok := kv.Key.(*ast.Ident); ok && id.Name == "BuildMode" {
							mode = kv.Value
						}
					}
				}
				if mode == nil {
					r.Fail("R07.mode", key, c.Pos(cl.Pos()), "LoadProgramOptions literal does not set BuildMode: generic bodies would be analysed uninstantiated")
					return true
				}
				tv := p.TypesInfo.Types[mode]
				inst := instantiateGenericsValue(c)
				if tv.Value == nil {
					r.Fail("R07.mode", key, c.Pos(mode.Pos()), "BuildMode is not a constant expression; cannot establish ssa.InstantiateGenerics")
					return true
				}
				v, _ := constant.Int64Val(constant.ToInt(tv.Value))
				r.Check(inst != 0 && v&inst != 0, "R07.mode", key, c.Pos(mode.Pos()),
					"BuildMode includes ssa.InstantiateGenerics", "BuildMode lacks ssa.InstantiateGenerics")
				return true
			})
		}
	}

	// ---- R07.enqueue
	c07enqueue(c, r)
	// ---- R07.worklist
	c07worklist(c, r)
	// ---- R07.deferbound
	deferBoundRule(c, r, "R07.deferbound")
	// ---- R07.panics (inventory)
	n := 0
	for _, rel := range scopePkgsC07 {
		p := c.Pkg(rel)
		if p == nil {
			continue
		}
		for _, f := range p.Syntax {
			if strings.HasSuffix(c.Fset.Position(f.Pos()).Filename, "_test.go") {
				continue
			}
			ast.Inspect(f, func(nd ast.Node) bool {
				if call, ok := nd.(*ast.CallExpr); ok {
					if id, ok := call.Fun.(*ast.Ident); ok && id.Name == "panic" {
						if _, isB := p.TypesInfo.Uses[id].(*types.Builtin); isB {
							n++
						}
					}
				}
				return true
			})
		}
	}
	r.Extra["explicit_panic_sites_in_scope"] = n
}

func instantiateGenericsValue(c *core.Ctx) int64 {
	p := c.All[core.SSAPath]
	if p == nil {
		return 0
	}
	k, _ := p.Types.Scope().Lookup("InstantiateGenerics").(*types.Const)
	if k == nil {
		return 0
	}
	v, _ := constant.Int64Val(constant.ToInt(k.Val()))
	return v
}

func enclosingFuncName(f *ast.File, pos token.Pos) string {
	for _, d := range f.Decls {
		if fd, ok := d.(*ast.FuncDecl); ok && fd.Pos() <= pos && pos <= fd.End() {
			return fd.Name.Name
		}
	}
	return "<file-scope>"
}

// condMentions reports whether expression e contains a node satisfying pred.
func exprAny(e ast.Node, pred func(ast.Node) bool) bool {
	found := false
	ast.Inspect(e, func(n ast.Node) bool {
		if n != nil && pred(n) {
			found = true
		}
		return !found
	})
	return found
}

// endsInReturn tells whether a block's last statement is a return (or
// continue, for loop-level guards).
func endsInExit(b *ast.BlockStmt) bool {
	if b == nil || len(b.List) == 0 {
		return false
	}
	switch s := b.List[len(b.List)-1].(type) {
	case *ast.ReturnStmt:
		return true
	case *ast.BranchStmt:
		return s.Tok.String() == "continue" || s.Tok.String() == "break"
	}
	return false
}

// isSeenLookup: index expression on a map whose value type is bool.
func isBoolMapIndex(n ast.Node, info *types.Info) (*ast.IndexExpr, bool) {
	ix, ok := n.(*ast.IndexExpr)
	if !ok {
		return nil, false
	}
	mt, ok := info.TypeOf(ix.X).Underlying().(*types.Map)
	if !ok {
		return nil, false
	}
	b, ok := mt.Elem().Underlying().(*types.Basic)
	return ix, ok && b.Kind() == types.Bool
}

func c07enqueue(c *core.Ctx, r *core.Report) {
	type site struct {
		rel, fn string
		lasso   bool
	}
	for _, s := range []site{{"analysis/taint", "Visitor.addNext", true}, {"analysis/backtrace", "Visitor.addNext", true},
		{"analysis/dataflow", "GetAllCallingContexts", false}} {
		fd, p := c.Decl(s.rel, s.fn)
		key := s.rel + "." + s.fn
		if fd == nil {
			r.Fail("infra.anchor-unresolved", "R07.enqueue|"+key, "", "function not found")
			continue
		}
		r.Analysed(key)
		info := p.TypesInfo
		// find appends to a slice of *VisitorNode / *CallStack (the work queue)
		found := 0
		var visitBlock func(list []ast.Stmt, guards []ast.Stmt)
		check := func(app *ast.AssignStmt, before []ast.Stmt, after []ast.Stmt) {
			found++
			okey := fmt.Sprintf("%s|append#%d", key, found)
			// not-seen test: a preceding `if` whose cond contains a bool-map lookup and which exits,
			// or an enclosing `if !m[k]`.
			var seenMap types.Object
			hasSeenGuard := false
			for _, st := range before {
				ifs, ok := st.(*ast.IfStmt)
				if !ok {
					continue
				}
				var ix *ast.IndexExpr
				if exprAny(ifs.Cond, func(n ast.Node) bool {
					if x, ok := isBoolMapIndex(n, info); ok {
						ix = x
						return true
					}
					return false
				}) {
					exits := endsInExit(ifs.Body)
					neg := exprAny(ifs.Cond, func(n ast.Node) bool {
						u, ok := n.(*ast.UnaryExpr)
						return ok && u.Op.String() == "!" && ast.Unparen(u.X) == ast.Expr(ix)
					})
					// enclosing guard `if !seen[k] { ... append ... }` or dominating `if seen[k] || .. { return }`
					encl := ifs.Body.Pos() <= app.Pos() && app.End() <= ifs.Body.End()
					if (exits && !neg && !encl) || (encl && neg) {
						hasSeenGuard = true
						seenMap = rootObj(ix.X, info)
					}
				}
			}
			r.Check(hasSeenGuard, "R07.enqueue.seen", okey, c.Pos(app.Pos()),
				"queue append is guarded by a not-seen test on a bool map", "queue append is not guarded by a not-seen test: the traversal may revisit nodes forever")
			// insertion of the key into the same map in the same block
			ins := false
			for _, st := range append(append([]ast.Stmt{}, before...), after...) {
				as, ok := st.(*ast.AssignStmt)
				if !ok || len(as.Lhs) != 1 {
					continue
				}
				if ix, ok := isBoolMapIndex(as.Lhs[0], info); ok && seenMap != nil && rootObj(ix.X, info) == seenMap {
					if id, ok := as.Rhs[0].(*ast.Ident); ok && id.Name == "true" {
						ins = true
					}
				}
			}
			r.Check(ins, "R07.enqueue.insert", okey, c.Pos(app.Pos()),
				"the seen key is inserted next to the append", "the seen set is never updated next to the append: the not-seen test cannot bound the traversal")
			if s.lasso {
				lassoOK := false
				for _, st := range before {
					ifs, ok := st.(*ast.IfStmt)
					if !ok || !endsInExit(ifs.Body) {
						continue
					}
					var sels []string
					ast.Inspect(ifs.Cond, func(n ast.Node) bool {
						call, ok := n.(*ast.CallExpr)
						if !ok {
							return true
						}
						se, ok := call.Fun.(*ast.SelectorExpr)
						if !ok || se.Sel.Name != "GetLassoHandle" {
							return true
						}
						if rs, ok := se.X.(*ast.SelectorExpr); ok {
							sels = append(sels, rs.Sel.Name)
						}
						return true
					})
					hasT, hasC := false, false
					for _, x := range sels {
						if x == "Trace" {
							hasT = true
						}
						if x == "ClosureTrace" {
							hasC = true
						}
					}
					if hasT && hasC {
						lassoOK = true
					}
				}
				r.Check(lassoOK, "R07.enqueue.lasso", okey, c.Pos(app.Pos()),
					"append is dominated by an exiting test of GetLassoHandle on both Trace and ClosureTrace",
					"no dominating lasso test over both the call trace and the closure trace: recursion would grow the key space without bound")
			}
		}
		// the work queue: a slice parameter of the function, or a local that is
		// consumed by re-slicing (`q = q[1:]`) somewhere in the function
		queues := map[types.Object]bool{}
		for _, fl := range fd.Type.Params.List {
			for _, nm := range fl.Names {
				if isWorkQueueType(info.TypeOf(fl.Type)) {
					queues[info.ObjectOf(nm)] = true
				}
			}
		}
		ast.Inspect(fd.Body, func(n ast.Node) bool {
			if as, ok := n.(*ast.AssignStmt); ok && len(as.Lhs) == 1 && len(as.Rhs) == 1 {
				if se, ok := as.Rhs[0].(*ast.SliceExpr); ok {
					if o := rootObj(as.Lhs[0], info); o != nil && o == rootObj(se.X, info) {
						queues[o] = true
					}
				}
			}
			return true
		})
		visitBlock = func(list []ast.Stmt, guards []ast.Stmt) {
			for i, st := range list {
				if as, ok := st.(*ast.AssignStmt); ok && len(as.Rhs) == 1 {
					if call, ok := as.Rhs[0].(*ast.CallExpr); ok {
						if id, ok := call.Fun.(*ast.Ident); ok && id.Name == "append" && isWorkQueueType(info.TypeOf(as.Lhs[0])) && len(call.Args) == 2 && queues[rootObj(as.Lhs[0], info)] {
							// skip the initial seeding append (argument is not derived in a loop): detected by absence of any loop ancestor
							before := append(append([]ast.Stmt{}, guards...), list[:i]...)
							check(as, before, list[i+1:])
						}
					}
				}
				// descend
				switch x := st.(type) {
				case *ast.IfStmt:
					visitBlock(x.Body.List, append(append([]ast.Stmt{}, guards...), append(list[:i:i], x)...))
					if eb, ok := x.Else.(*ast.BlockStmt); ok {
						visitBlock(eb.List, append(append([]ast.Stmt{}, guards...), list[:i]...))
					} else if ei, ok := x.Else.(*ast.IfStmt); ok {
						visitBlock([]ast.Stmt{ei}, append(append([]ast.Stmt{}, guards...), list[:i]...))
					}
				case *ast.ForStmt:
					visitBlock(x.Body.List, append(append([]ast.Stmt{}, guards...), list[:i]...))
				case *ast.RangeStmt:
					visitBlock(x.Body.List, append(append([]ast.Stmt{}, guards...), list[:i]...))
				case *ast.BlockStmt:
					visitBlock(x.List, append(append([]ast.Stmt{}, guards...), list[:i]...))
				}
			}
		}
		if s.fn == "GetAllCallingContexts" {
			// only appends inside the main loop are traversal steps
			ast.Inspect(fd.Body, func(n ast.Node) bool {
				if fs, ok := n.(*ast.ForStmt); ok {
					visitBlock(fs.Body.List, nil)
					return false
				}
				return true
			})
		} else {
			visitBlock(fd.Body.List, nil)
		}
		if found == 0 {
			r.Fail("infra.anchor-unresolved", "R07.enqueue|"+key, c.Pos(fd.Pos()), "no append to a work queue found in the function")
		}
	}
	r.Floor("R07.enqueue.seen", 3, "taint.addNext, backtrace.addNext, GetAllCallingContexts")
	r.Floor("R07.enqueue.lasso", 2, "both visitors")
}

func isWorkQueueType(t types.Type) bool {
	sl, ok := t.Underlying().(*types.Slice)
	if !ok {
		return false
	}
	pt, ok := types.Unalias(sl.Elem()).(*types.Pointer)
	if !ok {
		return false
	}
	s := types.Unalias(pt.Elem()).String()
	return strings.HasSuffix(s, "dataflow.VisitorNode") || strings.Contains(s, "dataflow.NodeTree[") || strings.HasSuffix(s, "dataflow.CallStack")
}

// rootObj returns the object of the identifier or selected field at the root
// of an expression like `seen`, `v.seen`.
func rootObj(e ast.Expr, info *types.Info) types.Object {
	switch x := ast.Unparen(e).(type) {
	case *ast.Ident:
		return info.ObjectOf(x)
	case *ast.SelectorExpr:
		return info.ObjectOf(x.Sel)
	}
	return nil
}

func c07worklist(c *core.Ctx, r *core.Report) {
	fd, p := c.Decl("analysis/lang", "RunForwardIterative")
	if fd == nil {
		r.Fail("infra.anchor-unresolved", "R07.worklist|analysis/lang.RunForwardIterative", "", "function not found")
		return
	}
	r.Analysed("analysis/lang.RunForwardIterative")
	info := p.TypesInfo
	// every append to a []*ssa.BasicBlock worklist inside the loop is inside an `if op.ChangedOnEndBlock()`
	var loop *ast.ForStmt
	ast.Inspect(fd.Body, func(n ast.Node) bool {
		if fs, ok := n.(*ast.ForStmt); ok && loop == nil {
			loop = fs
		}
		return loop == nil
	})
	if loop == nil {
		r.Fail("R07.worklist", "analysis/lang.RunForwardIterative|loop", c.Pos(fd.Pos()), "no worklist loop found")
		return
	}
	n := 0
	var walk func(node ast.Node, guarded bool)
	walk = func(node ast.Node, guarded bool) {
		ast.Inspect(node, func(x ast.Node) bool {
			if x == node {
				return true
			}
			switch s := x.(type) {
			case *ast.IfStmt:
				g := guarded || exprAny(s.Cond, func(m ast.Node) bool {
					call, ok := m.(*ast.CallExpr)
					if !ok {
						return false
					}
					se, ok := call.Fun.(*ast.SelectorExpr)
					return ok && se.Sel.Name == "ChangedOnEndBlock"
				})
				walk(s.Body, g)
				if s.Else != nil {
					walk(s.Else, guarded)
				}
				return false
			case *ast.AssignStmt:
				if len(s.Rhs) == 1 {
					if call, ok := s.Rhs[0].(*ast.CallExpr); ok {
						if id, ok := call.Fun.(*ast.Ident); ok && id.Name == "append" {
							if sl, ok := info.TypeOf(s.Lhs[0]).Underlying().(*types.Slice); ok && strings.HasSuffix(sl.Elem().String(), "ssa.BasicBlock") {
								n++
								r.Check(guarded, "R07.worklist", fmt.Sprintf("analysis/lang.RunForwardIterative|requeue#%d", n), c.Pos(s.Pos()),
									"block re-queue is conditional on ChangedOnEndBlock()", "a block is re-queued unconditionally: the intra-procedural fixpoint loop cannot terminate")
							}
						}
					}
				}
			}
			return true
		})
	}
	walk(loop.Body, false)
	r.Floor("R07.worklist", 1, "one re-queue site")
}
