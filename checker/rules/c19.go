package rules

import (
	"fmt"
	"go/ast"
	"go/types"
	"sort"
	"strings"

	"golang.org/x/tools/go/ssa"

	"verif/checker/core"
)

func init() { Registry["C19"] = c19 }

// infeasibleByFact: branch decisions that cannot happen given documented go/ssa
// facts; a path containing one is discharged.
func infeasibleStep(desc string) (string, bool) {
	// MakeClosure.Fn is always a *ssa.Function (go/ssa doc: "Fn Value // always a *Function")
	if strings.Contains(desc, ".Fn,*ssa.Function)=false") {
		return "MakeClosure.Fn is always a *ssa.Function (go/ssa invariant)", true
	}
	return "", false
}

func c19(c *core.Ctx, r *core.Report) {
	r.Explain("R19.forms: on the SSA of maypanic.findGoFunctions (helpers inlined), for every form of the launched callee - each dynamic kind of Call.Value that can hold a function, and interface-method invocation (Call.IsInvoke()) - an update of the map keyed by *ssa.Function must be reachable from the entry of the `*ssa.Go` arm when the type tests on Call.Value (also inside helpers, whose boolean results are evaluated) are decided for that kind. R19.recover: doesRecover recognises the recover builtin by type (*ssa.Builtin) in the function's own body; unhandled defer forms in doesDeferRecover answer 'does not recover' (over-report, allowed). R19.filter: the only removals from the go-function map are guarded by the allow-list / -exclude predicates.")
	r.NotDecided("whether the reported set is complete for programs whose goroutine entry is reached through the unrecorded forms (they are findings below); nothing about panics themselves.")
	fn := c.Func("analysis/maypanic", "findGoFunctions")
	if fn == nil {
		r.Fail("infra.anchor-unresolved", "R19.forms|analysis/maypanic.findGoFunctions", "", "not found")
		return
	}
	r.Analysed("analysis/maypanic.findGoFunctions")
	entries, _ := core.TypeCaseEntry(fn, "Go")
	if len(entries) == 0 {
		r.Fail("R19.forms", "analysis/maypanic.findGoFunctions|go-arm", c.Pos(fn.Pos()), "no arm for *ssa.Go: no goroutine is ever recorded")
		return
	}
	// Recording = an update of a map keyed by *ssa.Function (directly or in a helper such as addGoFunction), in the
	// go arm. For every form of the launched callee - interface method invocation, and each dynamic kind of callee
	// value - decide by partial evaluation (E11) whether a recording update is reachable.
	region := map[*ssa.BasicBlock]bool{}
	for _, e := range entries {
		for _, b := range fn.Blocks {
			if e.Dominates(b) {
				region[b] = true
			}
		}
	}
	targets := core.InlinedInstrsFrom(c, fn, region, c.Depth(3), func(ins ssa.Instruction) bool {
		mu, ok := ins.(*ssa.MapUpdate)
		if !ok {
			return false
		}
		m, ok := types.Unalias(mu.Map.Type()).Underlying().(*types.Map)
		return ok && strings.HasSuffix(m.Key().String(), "ssa.Function")
	})
	if len(targets) == 0 {
		r.Fail("R19.forms", "analysis/maypanic.findGoFunctions|records", c.Pos(fn.Pos()), "the go arm never records a function (no update of a map keyed by *ssa.Function in the arm or its helpers)")
		return
	}
	_, valueIface := c.NamedIface(core.SSAPath, "Value")
	reach := func(k types.Type, invoke bool) bool {
		for _, e := range entries {
			for _, t := range targets {
				if t.ReachableForKindAssuming(e, "Call.Value", k, map[string]bool{"IsInvoke": invoke}) {
					return true
				}
			}
		}
		return false
	}
	var fnT types.Type
	var static, dynamicLost, dynamicOK []string
	for _, im := range c.Implementers(valueIface) {
		name := core.ShortType(im)
		if name == "*ssa.Function" {
			fnT = im
		}
		if why := valueNeverFuncOrIface[name]; why != "" {
			continue // cannot be the callee of a go statement
		}
		switch name {
		case "*ssa.Builtin", "*ssa.Const", "*ssa.MakeInterface", "*ssa.ChangeInterface":
			continue // builtins have no body to report, a constant callee is nil, interface values are called in invoke mode
		}
		ok := reach(im, false)
		switch {
		case name == "*ssa.Function" || name == "*ssa.MakeClosure":
			if ok {
				static = append(static, name)
			}
		case ok:
			dynamicOK = append(dynamicOK, name)
		default:
			dynamicLost = append(dynamicLost, name)
		}
	}
	sort.Strings(static)
	sort.Strings(dynamicLost)
	pos := c.Pos(entries[0].Instrs[0].Pos())
	r.Check(len(static) == 2, "R19.forms", "analysis/maypanic.findGoFunctions|static-callee", pos,
		"`go f()` and `go func(){...}()` record the launched function", "a go statement launching a named function or a closure literal is not recorded (recorded kinds: "+strings.Join(static, ", ")+")")
	r.Check(len(dynamicLost) == 0, "R19.forms", "analysis/maypanic.findGoFunctions|function-value", pos,
		"a go statement through a function value records its possible targets",
		"a go statement whose callee is a function value ("+strings.Join(dynamicLost, ", ")+") is not recorded: its entry function can never be reported as an unrecovered-panic goroutine")
	invokeOK := fnT != nil && reach(fnT, true)
	for _, im := range c.Implementers(valueIface) {
		if !invokeOK && valueNeverFuncOrIface[core.ShortType(im)] == "" && reach(im, true) {
			invokeOK = true
		}
	}
	r.Check(invokeOK, "R19.forms", "analysis/maypanic.findGoFunctions|invoke-mode", pos,
		"a go statement through an interface method records its possible targets",
		"a go statement invoking an interface method (`go r.Run()`, Call.IsInvoke()) is not recorded: its entry function can never be reported as an unrecovered-panic goroutine")
	r.Extra["go_arm_record_sites"] = len(targets)
	r.Floor("R19.forms", 3, "static / function-value / invoke forms")

	// ---- R19.recover
	if dr := c.Func("analysis/maypanic", "doesRecover"); dr != nil {
		r.Analysed("analysis/maypanic.doesRecover")
		// EVERY way of returning true must be control-dependent on: type assertion to *ssa.Builtin succeeded and
		// Name()=="recover" (recover() only stops a panic when the deferred function calls it directly: returning true
		// for a function that merely calls another function that recovers hides the goroutine)
		var points []*ssa.BasicBlock
		isTrue := func(v ssa.Value) bool {
			k, isK := v.(*ssa.Const)
			return isK && k.Value != nil && k.Value.ExactString() == "true"
		}
		for _, b := range dr.Blocks {
			ret, isRet := b.Instrs[len(b.Instrs)-1].(*ssa.Return)
			if !isRet || len(ret.Results) != 1 {
				continue
			}
			if isTrue(ret.Results[0]) {
				points = append(points, b)
			} else if phi, isPhi := ret.Results[0].(*ssa.Phi); isPhi {
				for i, e := range phi.Edges {
					if isTrue(e) {
						points = append(points, phi.Block().Preds[i])
					} else if _, isC := e.(*ssa.Const); !isC {
						points = append(points, nil) // a computed result: not decidable as guarded
					}
				}
			} else if _, isC := ret.Results[0].(*ssa.Const); !isC {
				points = append(points, nil)
			}
		}
		ok := len(points) > 0
		for _, b := range points {
			if b == nil {
				ok = false
				continue
			}
			hasB, hasName := false, false
			for d := b; d != nil; d = d.Idom() {
				for _, p := range d.Preds {
					if iff, isIf := p.Instrs[len(p.Instrs)-1].(*ssa.If); isIf && p.Succs[0] == d {
						desc := core.DescribeValue(iff.Cond, 0)
						if strings.Contains(desc, ",*ssa.Builtin)") {
							hasB = true
						}
						if strings.Contains(desc, `"recover"`) {
							hasName = true
						}
					}
				}
			}
			if !(hasB && hasName) {
				ok = false
			}
		}
		r.Check(ok, "R19.recover", "analysis/maypanic.doesRecover|builtin-by-type", c.Pos(dr.Pos()),
			"`true` is returned only for a call whose value is an *ssa.Builtin named recover", "doesRecover can return true on a path that is not guarded by `the callee is an *ssa.Builtin named recover`: a user function named recover, or a function that only calls another function that recovers (recover() has no effect there), counts as recovering and hides a goroutine that can crash the program")
	} else {
		r.Fail("infra.anchor-unresolved", "R19.recover|analysis/maypanic.doesRecover", "", "not found")
	}

	// ---- R19.filter: delete on map[*ssa.Function][]token.Pos only under allowListed/IsExcluded
	p := c.Pkg("analysis/maypanic")
	n := 0
	for _, f := range p.Syntax {
		var stack []ast.Node
		ast.Inspect(f, func(nd ast.Node) bool {
			if nd == nil {
				stack = stack[:len(stack)-1]
				return true
			}
			stack = append(stack, nd)
			call, ok := nd.(*ast.CallExpr)
			if !ok {
				return true
			}
			id, ok := call.Fun.(*ast.Ident)
			if !ok || id.Name != "delete" || len(call.Args) != 2 {
				return true
			}
			mt, ok := p.TypesInfo.TypeOf(call.Args[0]).Underlying().(*types.Map)
			if !ok || core.SSATypeName(mt.Key()) != "Function" {
				return true
			}
			n++
			guard := false
			var names []string
			for _, anc := range stack {
				if ifs, ok := anc.(*ast.IfStmt); ok && call.Pos() >= ifs.Body.Pos() && call.End() <= ifs.Body.End() {
					ast.Inspect(ifs.Cond, func(m ast.Node) bool {
						if cc, ok := m.(*ast.CallExpr); ok {
							if o := core.CalleeObj(cc, p.TypesInfo); o != nil {
								names = append(names, o.Name())
							}
						}
						return true
					})
				}
			}
			sort.Strings(names)
			for _, nm := range names {
				if nm == "allowListed" || nm == "IsExcluded" {
					guard = true
				}
			}
			r.Check(guard, "R19.filter", fmt.Sprintf("analysis/maypanic|delete#%d", n), c.Pos(call.Pos()),
				"removal from the go-function map is guarded by "+strings.Join(names, "/"), "a goroutine entry is removed from the report set outside the allow-list / -exclude filters")
			return true
		})
	}
	r.Floor("R19.filter", 1, "one filter site")
}
