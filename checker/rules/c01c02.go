package rules

import (
	"fmt"
	"go/ast"
	"go/token"
	"go/types"
	"sort"
	"strings"

	"golang.org/x/tools/go/ssa"

	"verif/checker/core"
)

func init() {
	Registry["C01"] = c01
	Registry["C02"] = c02
}

func c01(c *core.Ctx, r *core.Report) {
	r.Explain("R01.visit: the forward traversal taint.(*Visitor).Visit has a non-empty arm for every node kind summaries can contain (it has no default: a kind without an arm is silently not expanded). R01.sinksite: edge construction has arms for the sink-capable instruction shapes named in the statement (call instructions in all three forms, Return, MakeClosure, Store, If) and their builders read the sink-side operands (Call.Args and Call.Value, Return.Results, MakeClosure.Bindings, Store.Addr/Val, If.Cond). R01.globalkey: every transfer whose source or destination may be a global is issued at an instruction that has that value as a direct operand (global access nodes are keyed by (instruction, global); otherwise the edge to the global is silently dropped). R01.record: a reached sink is recorded before the alarm cut-off is consulted. R01.exit: a non-empty set of sinks forces the failure exit status. Instruction-level conditions (dispatch, operand coverage, builtins incl. classification by *ssa.Builtin, grow-only state) are decided under C08 and cross-referenced.")
	r.NotDecided("the soundness claim itself (all programs x executions x configurations); index stores into a global array create no global edge (markValue back-propagation), for which no non-descriptive rule was found.")
	// ---- R01.visit
	d := c.FindDispatch("analysis/taint", "Visitor.Visit", dfPath, "GraphNode")
	if d == nil {
		r.Fail("infra.anchor-unresolved", "R01.visit|analysis/taint.Visitor.Visit", "", "not found")
	} else {
		r.Analysed(d.Func)
		for _, im := range d.Impls {
			name := core.ShortType(im)
			key := d.Func + "|" + name
			cl := d.Switch.ClauseFor(im)
			switch {
			case cl == nil && isWrapperOf(im, d.Iface):
				r.Except("R01.visit", key, c.Pos(d.Switch.Stmt.Pos()), "delegating wrapper: struct embeds dataflow.GraphNode itself, not a node kind of summaries")
			case cl == nil:
				r.Fail("R01.visit", key, c.Pos(d.Switch.Stmt.Pos()), "the forward traversal has no arm for "+name+" and no default: data reaching a node of this kind is silently not propagated further")
			case len(cl.Clause.Body) == 0:
				r.Fail("R01.visit", key, c.Pos(cl.Clause.Pos()), "empty arm: data reaching a node of this kind is silently not propagated further")
			default:
				r.OK("R01.visit", key, c.Pos(cl.Clause.Pos()), "node kind is expanded")
			}
		}
		r.Floor("R01.visit", 11, "11 node kinds")
	}
	// ---- R01.sinksite: operands read by the edge builders
	g := c.RepoGraph()
	for _, s := range []struct {
		builder string
		reads   []string
	}{
		{"IntraAnalysisState.makeEdgesAtCallSite", []string{"CallCommon.Args", "CallCommon.Value"}},
		{"IntraAnalysisState.makeEdgesAtReturn", []string{"Return.Results"}},
		{"IntraAnalysisState.makeEdgesAtClosure", []string{"MakeClosure.Bindings"}},
		{"IntraAnalysisState.makeEdgesAtStoreInCapturedLabel", []string{"Store.Addr"}},
		{"IntraAnalysisState.makeEdgesSyntheticNodes", []string{"Store.Val"}},
		{"IntraAnalysisState.makeEdgesAtIf", []string{"If.Cond"}},
	} {
		fn := c.Func("analysis/dataflow", s.builder)
		if fn == nil {
			r.Fail("infra.anchor-unresolved", "R01.sinksite|analysis/dataflow."+s.builder, "", "edge builder not found")
			continue
		}
		r.Analysed("analysis/dataflow." + s.builder)
		reads := core.FieldReads(g.Cone(true, fn))
		for _, op := range s.reads {
			_, ok := reads[op]
			r.Check(ok, "R01.sinksite", "analysis/dataflow."+s.builder+"|"+op, c.Pos(fn.Pos()), "edge builder reads "+op,
				"edge builder never reads "+op+": data flowing into that operand of a sink-capable instruction creates no summary edge, so a flow into a sink argument/value is not reported")
		}
	}
	r.Floor("R01.sinksite", 7, "seven sink-side operands")
	// the makeEdgesAtInstruction arms (shared with C08)
	if dd := c.FindDispatch("analysis/dataflow", "IntraAnalysisState.makeEdgesAtInstruction", core.SSAPath, "Instruction"); dd != nil {
		forms := map[string]bool{}
		for _, cl := range dd.Switch.Clauses {
			if len(cl.Clause.Body) == 0 {
				continue
			}
			for k := range callForms(cl.Types, c) {
				forms[k] = true
			}
		}
		for _, f := range []string{"Call", "Defer", "Go"} {
			r.Check(forms[f], "R01.sinksite", "analysis/dataflow.IntraAnalysisState.makeEdgesAtInstruction|form|"+f, c.Pos(dd.Switch.Stmt.Pos()), "call-site edges are built for *ssa."+f, "no call-site edges for *ssa."+f+" instructions: a sink called in that form never receives a flow")
		}
	}
	// ---- R01.globalkey
	c01globalkey(c, r)
	// ---- R01.record (same dominance as R05.alarms)
	if vf := c.Func("analysis/taint", "Visitor.Visit"); vf != nil {
		var rec, cut []ssa.Instruction
		for _, b := range vf.Blocks {
			for _, ins := range b.Instrs {
				if sc := core.StaticCalleeOf(ins); sc != nil {
					switch sc.Name() {
					case "addNewPathCandidate":
						rec = append(rec, ins)
					case "IncrementAndTestAlarms":
						cut = append(cut, ins)
					}
				}
			}
		}
		ok := len(rec) > 0
		for _, x := range cut {
			d := false
			for _, y := range rec {
				if core.InstrDominates(y, x) {
					d = true
				}
			}
			ok = ok && d
		}
		r.Check(ok, "R01.record", "analysis/taint.Visitor.Visit|record-before-cutoff", c.Pos(vf.Pos()), "a reached sink is recorded before the alarm cut-off is consulted", "the alarm cut-off can stop the traversal before a reached sink is recorded")
	}
	exitRule(c, r, "R01.exit", "Sinks")
	// ---- R01.seenkey
	seenEnqueueRule(c, r, "R01.seenenq", "analysis/taint")
	seenKeyRule(c, r, "R01.seenkey", "analysis/taint", "a flow that returns to the second caller of a shared helper chain is not reported")
	treeKeyRule(c, r, "R01.seenkey", "flows through call chains that differ only in the merged frames are lost")
	apGrammarRule(c, r, "R01.apgrammar", "analysis/taint")
	ensureRule(c, r, "R01.ensure", "analysis/taint", "Visitor.Visit", 8)
	stopsRule(c, r, "R01.stops", "analysis/taint", 5)
	edgeLoopRule(c, r, "R01.edgeloop", "analysis/taint", "Visitor.Visit", 1)
	boundsRule(c, r, "R01.bound", func(fn *ssa.Function, rel string) bool { return rel == "analysis/dataflow" || rel == "analysis/taint" },
		"the guarded summary edge is not created and the flow through it is not reported")
	memoRule(c, r, "R01.memo", func(fn *ssa.Function, rel string) bool { return rel == "analysis/taint" }, "stale traversal state hides flows")
}

// c01globalkey: in Do* handlers, transfer(state, loc, in, out, ...) must use
// operands of loc itself for in/out (global access nodes are keyed by loc).
func c01globalkey(c *core.Ctx, r *core.Report) {
	p := c.Pkg("analysis/dataflow")
	if p == nil {
		return
	}
	info := p.TypesInfo
	transferFns := map[string]bool{"simpleTransfer": true, "transfer": true, "transferPre": true, "transferCopy": true}
	// shapes "<Kind>.<F>:<Kind2>.<F2>" for which initializeInnerNodes creates access nodes besides direct operands
	accessShapes := map[string]bool{}
	if fd, _ := c.Decl("analysis/dataflow", "SummaryGraph.initializeInnerNodes"); fd != nil {
		ast.Inspect(fd.Body, func(nd ast.Node) bool {
			ta, ok := nd.(*ast.TypeAssertExpr)
			if !ok || ta.Type == nil || core.SSATypeName(info.TypeOf(ta.Type)) != "Global" {
				return true
			}
			if sh := exprShape(ta.X, fd, info); sh != "" {
				accessShapes[sh] = true
			}
			return true
		})
	}
	n := 0
	for _, f := range p.Syntax {
		for _, d := range f.Decls {
			fd, ok := d.(*ast.FuncDecl)
			if !ok || fd.Body == nil || fd.Recv == nil || !strings.HasPrefix(fd.Name.Name, "Do") {
				continue
			}
			rangeOver := map[types.Object]types.Object{} // range value var -> root object of the ranged expression
			ast.Inspect(fd.Body, func(nd ast.Node) bool {
				if rs, ok := nd.(*ast.RangeStmt); ok {
					if v, ok := rs.Value.(*ast.Ident); ok {
						if root := rootIdentObj(rs.X, info); root != nil {
							rangeOver[info.ObjectOf(v)] = root
						}
					}
				}
				return true
			})
			cnt := 0
			ast.Inspect(fd.Body, func(nd ast.Node) bool {
				call, ok := nd.(*ast.CallExpr)
				if !ok {
					return true
				}
				o := core.CalleeObj(call, info)
				if o == nil || !transferFns[o.Name()] || len(call.Args) < 4 {
					return true
				}
				loc := rootIdentObj(call.Args[1], info)
				cnt++
				for _, kw := range []struct {
					k    int
					what string
				}{{2, "source"}, {3, "destination"}} {
					k, what := kw.k, kw.what
					arg := call.Args[k]
					root := rootIdentObj(arg, info)
					if r2, ok := rangeOver[root]; ok {
						root = r2
					}
					// loc itself as value (e.g. transfer(..., x, x.X, x)) is fine
					n++
					key := fmt.Sprintf("analysis/dataflow.%s|transfer#%d|%s", fd.Name.Name, cnt, what)
					if root == nil || loc == nil {
						r.Fail("R01.globalkey", key, c.Pos(call.Pos()), "cannot resolve the instruction and operand of a transfer call (undecided)")
						continue
					}
					if root != loc {
						// indirect operand: accepted when global access nodes are created for the same shape
						shape := exprShape(arg, fd, info)
						if shape != "" && accessShapes[shape] {
							r.OK("R01.globalkey", key, c.Pos(call.Pos()), "indirect "+what+" of shape "+shape+": summary construction creates a global access node for this shape at the same instruction")
							continue
						}
					}
					r.Check(root == loc, "R01.globalkey", key, c.Pos(call.Pos()), "the "+what+" is an operand of the instruction the transfer is issued at",
						"the "+what+" of this transfer is an operand of a *different* instruction than the one the transfer is issued at: if it is a global, the global access node looked up under (instruction, global) does not exist and addGlobalEdge returns silently, so the flow through the global is lost (e.g. `g.f = source()` for a global struct g)")
				}
				return true
			})
		}
	}
	if n < 40 {
		r.Fail("infra.floor", "R01.globalkey", "", fmt.Sprintf("only %d transfer operands found", n))
	}
}

func rootIdentObj(e ast.Expr, info *types.Info) types.Object {
	for {
		switch x := ast.Unparen(e).(type) {
		case *ast.Ident:
			return info.ObjectOf(x)
		case *ast.SelectorExpr:
			e = x.X
		case *ast.IndexExpr:
			e = x.X
		case *ast.CallExpr:
			if se, ok := x.Fun.(*ast.SelectorExpr); ok {
				e = se.X
			} else {
				return nil
			}
		default:
			return nil
		}
	}
}

func c02(c *core.Ctx, r *core.Report) {
	r.Explain("R02.bind ('validated that data'): every condition set attached to a summary edge is either nil, a literal without conditions, or the path condition filtered to predicates on the very value that is the edge's destination (AsPredicateTo(dest) with dest the destination argument of the same add*Edge call). R02.drop: in taint.addNext the only validator-based early return iterates the conditions of the edge being followed and passes each condition's value and polarity to isValidatorCondition; in Visit the sanitizer stop tests the node being expanded. R02.polarity: isValidatorCondition accepts a direct boolean validator call only under positive polarity, flips polarity under negation, and ties nil-error checks to the `== nil` sense. R02.whole: lang.ValuesWithSameData peels field/tuple projections off one parameter only (found from its body); isValuePredicateTo (closures included) passes the predicate's argument in the whole position and the flowing value in the part position. R02.allpaths: the conditions decorating an edge must hold on every path from the source to the destination: the path-condition computation must not take the conditions of a single found path without a dominance/all-paths restriction (today it does: KNOWN-FINDING with reproducer).")
	r.NotDecided("whether a flow is dropped only when all paths are validated, beyond the structural R02.allpaths clause; sanitizer semantics over all programs.")
	p := c.Pkg("analysis/dataflow")
	if p == nil {
		r.Fail("infra.anchor-unresolved", "R02|analysis/dataflow", "", "not found")
		return
	}
	info := p.TypesInfo
	// ---- R02.bind
	nSites := 0
	for _, f := range p.Syntax {
		if strings.HasSuffix(c.Fset.Position(f.Pos()).Filename, "_test.go") {
			continue
		}
		for _, d := range f.Decls {
			fd, ok := d.(*ast.FuncDecl)
			if !ok || fd.Body == nil || !strings.HasPrefix(fd.Name.Name, "makeEdges") && fd.Name.Name != "updateBoundVarEdges" && fd.Name.Name != "checkFlowIntoGlobal" {
				continue
			}
			// local: c2 := X.AsPredicateTo(V); applicableCond = &c2
			predOf := map[types.Object]types.Object{} // cond variable -> value V it is a predicate to
			ast.Inspect(fd.Body, func(n ast.Node) bool {
				switch x := n.(type) {
				case *ast.AssignStmt:
					for i, rhs := range x.Rhs {
						if i >= len(x.Lhs) {
							continue
						}
						lid, ok := x.Lhs[i].(*ast.Ident)
						if !ok {
							continue
						}
						if call, ok := ast.Unparen(rhs).(*ast.CallExpr); ok {
							if se, ok := call.Fun.(*ast.SelectorExpr); ok && se.Sel.Name == "AsPredicateTo" && len(call.Args) == 1 {
								if v, ok := ast.Unparen(call.Args[0]).(*ast.Ident); ok {
									predOf[info.ObjectOf(lid)] = info.ObjectOf(v)
								}
							}
						}
						if u, ok := ast.Unparen(rhs).(*ast.UnaryExpr); ok && u.Op == token.AND {
							if v, ok := u.X.(*ast.Ident); ok {
								if pv, ok := predOf[info.ObjectOf(v)]; ok {
									predOf[info.ObjectOf(lid)] = pv
								}
							}
						}
					}
				}
				return true
			})
			cnt := 0
			ast.Inspect(fd.Body, func(n ast.Node) bool {
				call, ok := n.(*ast.CallExpr)
				if !ok || len(call.Args) < 2 {
					return true
				}
				o := core.CalleeObj(call, info)
				if o == nil || !strings.HasPrefix(o.Name(), "add") || !strings.HasSuffix(o.Name(), "Edge") {
					return true
				}
				cond := ast.Unparen(call.Args[1])
				if t := info.TypeOf(cond); t == nil || !strings.HasSuffix(t.String(), "ConditionInfo") && !info.Types[cond].IsNil() {
					return true
				}
				cnt++
				nSites++
				key := fmt.Sprintf("analysis/dataflow.%s|%s#%d", fd.Name.Name, o.Name(), cnt)
				switch {
				case info.Types[cond].IsNil():
					r.OK("R02.bind", key, c.Pos(call.Pos()), "edge carries no condition")
				case isCondLiteralWithoutConditions(cond):
					r.OK("R02.bind", key, c.Pos(call.Pos()), "edge carries a literal condition without validator conditions")
				default:
					id, isId := cond.(*ast.Ident)
					dest, _ := ast.Unparen(call.Args[len(call.Args)-1]).(*ast.Ident)
					ok := isId && dest != nil && predOf[info.ObjectOf(id)] != nil && predOf[info.ObjectOf(id)] == info.ObjectOf(dest)
					// edges to parameters / free variables aliasing the argument reuse the argument's predicate
					if isId && !ok && predOf[info.ObjectOf(id)] != nil && (o.Name() == "addParamEdge" || o.Name() == "addFreeVarEdge") {
						ok = true
					}
					r.Check(ok, "R02.bind", key, c.Pos(call.Pos()), "the conditions attached to the edge are the path condition filtered to predicates on the edge's own destination value",
						"a condition set is attached to an edge without being restricted to predicates on the edge's destination value: a validator that checked *other* data suppresses this flow")
				}
				return true
			})
		}
	}
	r.Floor("R02.bind", 8, "edge-construction sites measured")
	_ = nSites

	// ---- R02.drop
	if an := c.Func("analysis/taint", "Visitor.addNext"); an != nil {
		// SSA, helpers inlined: every call of isValidatorCondition reachable from addNext receives the Value and the
		// IsPositive of one of the Conditions of the edge being followed (the edgeInfo parameter of addNext)
		r.Analysed("analysis/taint.Visitor.addNext")
		var edgeParam ssa.Value
		for _, p := range an.Params {
			if strings.HasSuffix(p.Type().String(), "dataflow.EdgeInfo") {
				edgeParam = p
			}
		}
		nCalls, good := 0, 0
		for _, ii := range core.InlinedInstrs(c, an, c.Depth(2), func(ins ssa.Instruction) bool {
			call, ok := ins.(*ssa.Call)
			if !ok {
				return false
			}
			sc := call.Call.StaticCallee()
			return sc != nil && sc.Name() == "isValidatorCondition" && len(call.Call.Args) == 3
		}) {
			call := ii.Ins.(*ssa.Call)
			if call.Parent().Name() == "isValidatorCondition" || call.Parent().Name() == "matchValidatorCondition" {
				continue // the recursion of the predicate on sub-conditions
			}
			nCalls++
			p1, r1 := ii.PathAndRoot(call.Call.Args[1])
			p2, r2 := ii.PathAndRoot(call.Call.Args[2])
			if strings.HasSuffix(p1, "Conditions.Value") && strings.HasSuffix(p2, "Conditions.IsPositive") && r1 == edgeParam && r2 == edgeParam && edgeParam != nil {
				good++
			}
		}
		r.Check(nCalls >= 1 && good == nCalls, "R02.drop", "analysis/taint.Visitor.addNext|validator-stop", c.Pos(an.Pos()),
			"the validator stop iterates the conditions of the edge being followed and passes each condition's value and polarity",
			"the validator-based early return does not (only) consult the conditions of the edge being followed with their polarity: a validator elsewhere, or the negative branch of a validator, suppresses the flow")
	} else {
		r.Fail("infra.anchor-unresolved", "R02.drop|addNext", "", "not found")
	}
	if fd, tp := c.Decl("analysis/taint", "Visitor.Visit"); fd != nil {
		okS := false
		ast.Inspect(fd.Body, func(n ast.Node) bool {
			call, ok := n.(*ast.CallExpr)
			if !ok {
				return true
			}
			if o := core.CalleeObj(call, tp.TypesInfo); o != nil && o.Name() == "isSanitizer" && len(call.Args) == 3 {
				if sp := selPath(call.Args[2]); len(sp) == 2 && sp[1] == "Node" {
					okS = true
				}
			}
			return true
		})
		r.Check(okS, "R02.drop", "analysis/taint.Visitor.Visit|sanitizer-stop", c.Pos(fd.Pos()), "the sanitizer stop tests the node being expanded", "the sanitizer stop does not test the node being expanded")
	}
	r.Floor("R02.drop", 2, "validator and sanitizer stops")

	// ---- R02.polarity
	fd, tp := c.Decl("analysis/taint", "isValidatorCondition")
	if root := c.Func("analysis/taint", "isValidatorCondition"); fd != nil && root != nil {
		// the polarity logic may sit in a helper of the same package that isValidatorCondition delegates to
		// (e.g. behind a wrapper): take the function of its call cone that dispatches on the condition's kind
		hasUnOpArm := func(d *ast.FuncDecl) bool {
			for _, ts := range core.TypeSwitchesIn(d.Body, tp.TypesInfo, nil) {
				for _, cl := range ts.Clauses {
					for _, t := range cl.Types {
						if t != nil && core.ShortType(t) == "*ssa.UnOp" {
							return true
						}
					}
				}
			}
			return false
		}
		if !hasUnOpArm(fd) {
			var cands []*ssa.Function
			for f := range c.RepoGraph().Cone(false, root) {
				if c.FuncPkgRel(f) == "analysis/taint" && f.Object() != nil {
					cands = append(cands, f)
				}
			}
			sort.Slice(cands, func(i, j int) bool { return cands[i].Name() < cands[j].Name() })
			for _, f := range cands {
				if d := c.DeclOfObj(f.Object()); d != nil && d.Body != nil && d.Type.Params.NumFields() > 0 && hasUnOpArm(d) {
					fd = d
					break
				}
			}
		}
	}
	if fd != nil {
		r.Analysed("analysis/taint.isValidatorCondition")
		pol := fd.Type.Params.List[len(fd.Type.Params.List)-1].Names[0].Name
		for _, ts := range core.TypeSwitchesIn(fd.Body, tp.TypesInfo, nil) {
			for _, cl := range ts.Clauses {
				for _, t := range cl.Types {
					if t == nil {
						continue
					}
					switch core.ShortType(t) {
					case "*ssa.Call":
						ok := exprAny(cl.Clause, func(n ast.Node) bool {
							be, isB := n.(*ast.BinaryExpr)
							if !isB || be.Op != token.LAND {
								return false
							}
							id, isId := ast.Unparen(be.X).(*ast.Ident)
							return isId && id.Name == pol
						})
						r.Check(ok, "R02.polarity", "analysis/taint.isValidatorCondition|call-needs-positive", c.Pos(cl.Clause.Pos()), "a boolean validator call validates only on its true branch", "a boolean validator call is accepted regardless of polarity: the branch where the validator returned false also suppresses the flow")
					case "*ssa.UnOp":
						ok := exprAny(cl.Clause, func(n ast.Node) bool {
							u, isU := n.(*ast.UnaryExpr)
							if !isU || u.Op != token.NOT {
								return false
							}
							id, isId := ast.Unparen(u.X).(*ast.Ident)
							return isId && id.Name == pol
						})
						r.Check(ok, "R02.polarity", "analysis/taint.isValidatorCondition|negation-flips", c.Pos(cl.Clause.Pos()), "negation flips the polarity", "negation does not flip the polarity")
					case "*ssa.BinOp":
						ok := exprAny(cl.Clause, func(n ast.Node) bool {
							be, isB := n.(*ast.BinaryExpr)
							if !isB || be.Op != token.EQL {
								return false
							}
							a, _ := ast.Unparen(be.X).(*ast.Ident)
							b, _ := ast.Unparen(be.Y).(*ast.Ident)
							return a != nil && b != nil && (a.Name == pol || b.Name == pol)
						})
						r.Check(ok, "R02.polarity", "analysis/taint.isValidatorCondition|nil-check-sense", c.Pos(cl.Clause.Pos()), "a nil-error check validates on the branch where the error is nil", "the sense of the nil-error check is not tied to the polarity")
					}
				}
			}
		}
	} else {
		r.Fail("infra.anchor-unresolved", "R02.polarity|isValidatorCondition", "", "not found")
	}
	r.Floor("R02.polarity", 3, "call, negation, nil check")

	c02whole(c, r)
	seenEnqueueRule(c, r, "R02.seenenq", "analysis/taint")
	memoRule(c, r, "R02.memo", func(fn *ssa.Function, rel string) bool {
		return rel == "analysis/taint" || rel == "analysis/dataflow" || rel == "analysis/lang" || rel == "analysis/config"
	}, "a validator / sanitizer answer computed for one taint problem or value is returned for another, and an unvalidated flow is dropped")

	// ---- R02.allpaths
	ff := c.Func("analysis/dataflow", "FindPathBetweenBlocks")
	sp := c.Func("analysis/dataflow", "SimplePathCondition")
	if ff == nil || sp == nil {
		r.Fail("infra.anchor-unresolved", "R02.allpaths|FindPathBetweenBlocks/SimplePathCondition", "", "not found")
		return
	}
	r.Analysed("analysis/dataflow.FindPathBetweenBlocks")
	// a dominance (or all-paths) restriction somewhere in the cone of checkPathBetweenInstructions
	root := c.Func("analysis/dataflow", "IntraAnalysisState.checkPathBetweenInstructions")
	restricts := false
	for f := range c.RepoGraph().Cone(true, root) {
		if f.Name() == "Dominates" || f.Name() == "Idom" || f.Name() == "Dominees" {
			restricts = true
		}
	}
	// single path: FindPathBetweenBlocks returns one []*ssa.BasicBlock
	single := false
	if res := ff.Signature.Results(); res.Len() == 1 {
		if sl, ok := res.At(0).Type().Underlying().(*types.Slice); ok {
			if _, isPtr := sl.Elem().(*types.Pointer); isPtr {
				single = true
			}
		}
	}
	r.Check(!single || restricts, "R02.allpaths", "analysis/dataflow.FindPathBetweenBlocks|single-path-conditions", c.Pos(ff.Pos()),
		"edge conditions are restricted to conditions holding on every path (dominance / all-paths computation)",
		"the conditions decorating an edge are those of the single block path FindPathBetweenBlocks happens to find first, with no dominance or all-paths restriction in the cone of checkPathBetweenInstructions: an edge is dropped as validated although another path bypasses the validator")
}

func isCondLiteralWithoutConditions(e ast.Expr) bool {
	if u, ok := e.(*ast.UnaryExpr); ok && u.Op == token.AND {
		e = u.X
	}
	cl, ok := e.(*ast.CompositeLit)
	if !ok {
		return false
	}
	for _, el := range cl.Elts {
		if kv, ok := el.(*ast.KeyValueExpr); ok {
			if id, ok := kv.Key.(*ast.Ident); ok && id.Name == "Conditions" {
				return false
			}
		} else {
			return false
		}
	}
	return true
}

// exprShape renders an operand expression reached through type assertions of
// other operands, e.g. `addr.X` with `addr := x.Addr.(*ssa.FieldAddr)` as
// "Store.Addr:FieldAddr.X"; direct operands and unresolvable shapes give "".
func exprShape(e ast.Expr, fd *ast.FuncDecl, info *types.Info) string {
	se, ok := ast.Unparen(e).(*ast.SelectorExpr)
	if !ok {
		return ""
	}
	base, ok := ast.Unparen(se.X).(*ast.Ident)
	if !ok {
		return ""
	}
	kind := core.SSATypeName(info.TypeOf(base))
	if kind == "" {
		return ""
	}
	obj := info.ObjectOf(base)
	// find the definition of base: `base, ok := <x>.<F>.(*ssa.T)` or a type-switch binding over <x>.<F>
	var from ast.Expr
	ast.Inspect(fd.Body, func(n ast.Node) bool {
		switch x := n.(type) {
		case *ast.AssignStmt:
			if len(x.Rhs) == 1 && len(x.Lhs) >= 1 {
				if id, ok := x.Lhs[0].(*ast.Ident); ok && info.ObjectOf(id) == obj {
					if ta, ok := ast.Unparen(x.Rhs[0]).(*ast.TypeAssertExpr); ok {
						from = ta.X
					}
				}
			}
		case *ast.TypeSwitchStmt:
			if as, ok := x.Assign.(*ast.AssignStmt); ok && len(as.Rhs) == 1 {
				if ta, ok := as.Rhs[0].(*ast.TypeAssertExpr); ok {
					// implicit objects per clause
					for _, st := range x.Body.List {
						if info.Implicits[st] == obj {
							from = ta.X
						}
					}
				}
			}
		}
		return true
	})
	if from == nil {
		return ""
	}
	fse, ok := ast.Unparen(from).(*ast.SelectorExpr)
	if !ok {
		return ""
	}
	outer := core.SSATypeName(info.TypeOf(fse.X))
	if outer == "" {
		return ""
	}
	return outer + "." + fse.Sel.Name + ":" + kind + "." + se.Sel.Name
}

// c02whole (R02.whole): lang.ValuesWithSameData(whole, part) is asymmetric: it
// peels field loads / tuple extractions off ONE of its parameters only ("part
// loads a field of whole"). A validator applied to a struct validates a field
// loaded from it, never the converse. The rule finds the peeled parameter from
// the function's own body and requires, at every call outside package lang,
// that the peeled (part) position receives the value flowing to the sink (the
// `val` parameter of isValuePredicateTo) and the other (whole) position an
// argument of the predicate call. If both parameters are peeled the relation is
// symmetric and the rule is vacuous.
func c02whole(c *core.Ctx, r *core.Report) {
	same := c.Func("analysis/lang", "ValuesWithSameData")
	if same == nil {
		r.Fail("infra.anchor-unresolved", "R02.whole|analysis/lang.ValuesWithSameData", "", "not found")
		return
	}
	r.Analysed("analysis/lang.ValuesWithSameData")
	peeled := map[int]bool{}
	for _, b := range same.Blocks {
		for _, ins := range b.Instrs {
			call, ok := ins.(*ssa.Call)
			if !ok {
				continue
			}
			sc := call.Call.StaticCallee()
			if sc == nil || (sc.Name() != "MatchLoadField" && sc.Name() != "MatchExtract") || len(call.Call.Args) != 1 {
				continue
			}
			if i := core.ParamIndex(same, call.Call.Args[0]); i >= 0 {
				peeled[i] = true
			}
		}
	}
	if len(peeled) != 1 {
		r.OK("R02.whole", "analysis/lang.ValuesWithSameData|asymmetry", c.Pos(same.Pos()), fmt.Sprintf("field/tuple projections are peeled off %d parameter(s): the relation is not one-sided, argument order is immaterial", len(peeled)))
		return
	}
	part := 0
	for i := range peeled {
		part = i
	}
	whole := 1 - part
	r.OK("R02.whole", "analysis/lang.ValuesWithSameData|asymmetry", c.Pos(same.Pos()), fmt.Sprintf("projections are peeled off parameter #%d only (the part); parameter #%d is the whole", part, whole))
	host := c.Func("analysis/dataflow", "isValuePredicateTo")
	if host == nil {
		r.Fail("infra.anchor-unresolved", "R02.whole|analysis/dataflow.isValuePredicateTo", "", "not found")
		return
	}
	r.Analysed("analysis/dataflow.isValuePredicateTo")
	e := core.NewDepEngine(c)
	predP, valP := ssa.Value(host.Params[0]), ssa.Value(host.Params[1])
	// roots of a value of host or of one of its closures, expressed over host's parameters; a closure parameter
	// stands for the elements handed to the callback by the call the closure is passed to
	var rootsOf func(fn *ssa.Function, v ssa.Value, depth int) core.DepSet
	rootsOf = func(fn *ssa.Function, v ssa.Value, depth int) core.DepSet {
		res := core.DepSet{}
		for root := range e.Deps(v) {
			if fn == host || depth > 3 {
				res[root] = true
				continue
			}
			parent := fn.Parent()
			if parent == nil {
				continue
			}
			for _, b := range parent.Blocks {
				for _, ins := range b.Instrs {
					mc, ok := ins.(*ssa.MakeClosure)
					if !ok || mc.Fn != ssa.Value(fn) {
						continue
					}
					switch x := root.(type) {
					case *ssa.FreeVar:
						for i, fv := range fn.FreeVars {
							if fv == x {
								for rr := range rootsOf(parent, mc.Bindings[i], depth+1) {
									res[rr] = true
								}
							}
						}
					case *ssa.Parameter:
						if mc.Referrers() != nil {
							for _, ref := range *mc.Referrers() {
								if ci, ok := ref.(ssa.CallInstruction); ok {
									for _, a := range ci.Common().Args {
										if a != ssa.Value(mc) {
											for rr := range rootsOf(parent, a, depth+1) {
												res[rr] = true
											}
										}
									}
								}
							}
						}
					}
				}
			}
		}
		return res
	}
	n := 0
	fns := append([]*ssa.Function{host}, host.AnonFuncs...)
	for _, fn := range fns {
		for _, b := range fn.Blocks {
			for _, ins := range b.Instrs {
				call, ok := ins.(*ssa.Call)
				if !ok || call.Call.StaticCallee() != same || len(call.Call.Args) != 2 {
					continue
				}
				n++
				wr, pr := rootsOf(fn, call.Call.Args[whole], 0), rootsOf(fn, call.Call.Args[part], 0)
				ok1 := wr[predP] && !wr[valP]
				ok2 := pr[valP] && !pr[predP]
				r.Check(ok1 && ok2, "R02.whole", fmt.Sprintf("analysis/dataflow.isValuePredicateTo|ValuesWithSameData#%d", n), c.Pos(call.Pos()),
					"the predicate's argument is the whole and the flowing value the part: validating a struct validates its fields, not the converse",
					"ValuesWithSameData is called with the flowing value in the whole position and the predicate's argument in the part position: a validator applied to ONE field of a struct (if Validate(r.User) { sink(r) }) is taken to validate the whole struct, and flows through its other fields are dropped as validated")
			}
		}
	}
	if n == 0 {
		r.Fail("R02.whole", "analysis/dataflow.isValuePredicateTo|ValuesWithSameData", c.Pos(host.Pos()), "isValuePredicateTo no longer relates the predicate's arguments to the flowing value through ValuesWithSameData")
	}
}
