package core

import (
	"go/ast"
	"go/token"
	"go/types"
	"sort"
)

// OperandTable maps each go/ssa instruction type name to the operand field
// paths its Operands method exposes ("X", "Edges", "States.Chan", and
// "Call.Value"/"Call.Args" for instructions delegating to CallCommon), as
// extracted from the source of the go/ssa version Argot is built against.
func (c *Ctx) OperandTable() (map[string][]string, []string) {
	p := c.All[SSAPath]
	var problems []string
	res := map[string][]string{}
	if p == nil {
		return res, []string{"go/ssa package not loaded"}
	}
	for _, f := range p.Syntax {
		for _, d := range f.Decls {
			fd, ok := d.(*ast.FuncDecl)
			if !ok || fd.Name.Name != "Operands" || fd.Recv == nil || fd.Body == nil || len(fd.Recv.List) != 1 {
				continue
			}
			rt := p.TypesInfo.TypeOf(fd.Recv.List[0].Type)
			tn := SSATypeName(rt)
			if tn == "" || len(fd.Recv.List[0].Names) == 0 {
				continue
			}
			recv := p.TypesInfo.ObjectOf(fd.Recv.List[0].Names[0])
			set := map[string]bool{}
			ast.Inspect(fd.Body, func(n ast.Node) bool {
				switch x := n.(type) {
				case *ast.UnaryExpr:
					if x.Op != token.AND {
						return true
					}
					if path, ok := fieldPath(x.X, recv, p.TypesInfo); ok {
						set[path] = true
					} else {
						problems = append(problems, tn+".Operands: unrecognised operand expression")
					}
					return false
				case *ast.CallExpr:
					// delegation: v.Call.Operands(rands)
					if se, ok := x.Fun.(*ast.SelectorExpr); ok && se.Sel.Name == "Operands" {
						if path, ok := fieldPath(se.X, recv, p.TypesInfo); ok {
							set[path+".Value"] = true
							set[path+".Args"] = true
						}
					}
				}
				return true
			})
			var l []string
			for k := range set {
				l = append(l, k)
			}
			sort.Strings(l)
			res[tn] = l
		}
	}
	return res, problems
}

// fieldPath renders v.F, v.F[i], v.F[i].G as "F", "F", "F.G" when rooted at recv.
func fieldPath(e ast.Expr, recv types.Object, info *types.Info) (string, bool) {
	switch x := ast.Unparen(e).(type) {
	case *ast.Ident:
		if info.ObjectOf(x) == recv {
			return "", true
		}
		return "", false
	case *ast.SelectorExpr:
		base, ok := fieldPath(x.X, recv, info)
		if !ok {
			return "", false
		}
		if base == "" {
			return x.Sel.Name, true
		}
		return base + "." + x.Sel.Name, true
	case *ast.IndexExpr:
		return fieldPath(x.X, recv, info)
	}
	return "", false
}
