package core

import (
	"go/token"
	"go/types"
	"strings"

	"golang.org/x/tools/go/ssa"
)

// TypeRecursion is a direct self-recursive call of a function over a
// go/types.Type derived from its own type parameter.
type TypeRecursion struct {
	Call       *ssa.Call
	Step       string // how the recursive type argument is derived: "Field", "Elem", "Underlying", "Key", ... (last accessor)
	Budget     string // "decreases", "same", "mixed", "none"
	HasSeenSet bool   // the function has a map/set parameter or consults a memo before recursing
}

func isTypesTypeT(t types.Type) bool {
	n, ok := types.Unalias(t).(*types.Named)
	return ok && n.Obj().Pkg() != nil && n.Obj().Pkg().Path() == "go/types" && n.Obj().Name() == "Type"
}

// TypeRecursions lists the self-recursive calls over types of fn.
func TypeRecursions(c *Ctx, fn *ssa.Function) []TypeRecursion {
	tIdx := -1
	var intIdx []int
	hasSet := false
	for i, p := range fn.Params {
		if isTypesTypeT(p.Type()) && tIdx < 0 {
			tIdx = i
		}
		if b, ok := types.Unalias(p.Type()).Underlying().(*types.Basic); ok && b.Info()&types.IsInteger != 0 {
			intIdx = append(intIdx, i)
		}
		if _, ok := types.Unalias(p.Type()).Underlying().(*types.Map); ok {
			hasSet = true
		}
	}
	if tIdx < 0 {
		return nil
	}
	var res []TypeRecursion
	for _, b := range fn.Blocks {
		for _, ins := range b.Instrs {
			call, ok := ins.(*ssa.Call)
			if !ok || call.Call.StaticCallee() != fn || tIdx >= len(call.Call.Args) {
				continue
			}
			// last accessor producing the type argument
			step := "?"
			seen := map[ssa.Value]bool{}
			var walk func(v ssa.Value, d int)
			walk = func(v ssa.Value, d int) {
				if v == nil || seen[v] || d > 8 || step != "?" {
					return
				}
				seen[v] = true
				switch x := v.(type) {
				case *ssa.Call:
					name := ""
					if x.Call.IsInvoke() {
						name = x.Call.Method.Name()
					} else if sc := x.Call.StaticCallee(); sc != nil {
						name = sc.Name()
					}
					switch name {
					case "Type":
						// (*types.Var).Type(): of a struct field, a tuple element, ...
						for _, a := range x.Call.Args {
							walk(a, d+1)
						}
						if x.Call.IsInvoke() {
							walk(x.Call.Value, d+1)
						}
						if step == "?" {
							step = "Type"
						}
						return
					case "Field", "Elem", "Underlying", "Key", "At", "Params", "Results", "CoreType":
						step = name
						if sc := x.Call.StaticCallee(); sc != nil && sc.Signature.Recv() != nil {
							step = strings.TrimPrefix(ShortType(sc.Signature.Recv().Type()), "*types.") + "." + name
						}
						return
					}
				case *ssa.Phi:
					for _, e := range x.Edges {
						walk(e, d+1)
					}
					return
				case *ssa.ChangeInterface:
					walk(x.X, d+1)
					return
				case *ssa.MakeInterface:
					walk(x.X, d+1)
					return
				case *ssa.Extract:
					walk(x.Tuple, d+1)
					return
				case *ssa.TypeAssert:
					walk(x.X, d+1)
					return
				}
			}
			walk(call.Call.Args[tIdx], 0)
			budget := "none"
			for _, i := range intIdx {
				if i >= len(call.Call.Args) {
					continue
				}
				dec, same := 0, 0
				var edges []ssa.Value
				if phi, ok := call.Call.Args[i].(*ssa.Phi); ok {
					edges = phi.Edges
				} else {
					edges = []ssa.Value{call.Call.Args[i]}
				}
				for _, e := range edges {
					if bo, ok := e.(*ssa.BinOp); ok && bo.Op == token.SUB && bo.X == ssa.Value(fn.Params[i]) {
						if k, ok := bo.Y.(*ssa.Const); ok && k.Int64() > 0 {
							dec++
							continue
						}
					}
					same++
				}
				switch {
				case dec > 0 && same == 0:
					budget = "decreases"
				case dec > 0:
					budget = "mixed"
				default:
					budget = "same"
				}
			}
			// a memo / seen test before recursing
			memo := hasSet
			for _, bb := range fn.Blocks {
				for _, x := range bb.Instrs {
					if lk, ok := x.(*ssa.Lookup); ok {
						if _, isMap := types.Unalias(lk.X.Type()).Underlying().(*types.Map); isMap && strings.Contains(lk.X.Type().String(), "types.Type") {
							memo = true
						}
					}
				}
			}
			res = append(res, TypeRecursion{Call: call, Step: step, Budget: budget, HasSeenSet: memo})
		}
	}
	return res
}
