package rules

import (
	"fmt"
	"strings"

	"golang.org/x/tools/go/ssa"

	"verif/checker/core"
)

// c12edges (R12.edges): after solving, pointer.Analyze turns every solved call
// site target into a call-graph edge: for every contour (cgnode), every call
// site of it, every function object in the site's target set, callEdge is
// called. Inside that loop nest the call must depend on nothing but the
// iteration itself: any other decision (a filter, a "seen" set keyed by
// something coarser than (contour, site, callee)) drops edges that only one
// contour discovers. Decided on the SSA CFG: the block calling callEdge is
// control dependent, within its enclosing loop nest, on loop headers only.
// The sweep must range over a.cgnodes, the sites of each contour and the
// points-to set of site.targets (access paths read by the loop operands).
func c12edges(c *core.Ctx, r *core.Report) {
	fn := c.Func("internal/pointer", "Analyze")
	if fn == nil {
		r.Fail("infra.anchor-unresolved", "R12.edges|internal/pointer.Analyze", "", "not found")
		return
	}
	r.Analysed("internal/pointer.Analyze")
	n := 0
	for _, b := range fn.Blocks {
		for _, ins := range b.Instrs {
			call, ok := ins.(*ssa.Call)
			if !ok {
				continue
			}
			sc := call.Call.StaticCallee()
			if sc == nil || sc.Name() != "callEdge" {
				continue
			}
			n++
			deps, inLoop := core.ControlDepsWithin(b)
			key := fmt.Sprintf("internal/pointer.Analyze|callEdge#%d", n)
			if !inLoop {
				r.Fail("R12.edges", key, c.Pos(call.Pos()), "the dynamic call edges are not added by a sweep over the call sites (callEdge is not in a loop)")
				continue
			}
			var conds []string
			for _, d := range deps {
				iff := d.Instrs[len(d.Instrs)-1].(*ssa.If)
				conds = append(conds, core.DescribeValue(iff.Cond, 0)+" at "+c.Pos(iff.Cond.Pos()))
			}
			// what the sweep ranges over
			sl := core.NewReadPaths(c, call.Call.Args[len(call.Call.Args)-1])
			site := core.NewReadPaths(c, call.Call.Args[len(call.Call.Args)-2])
			caller := core.NewReadPaths(c, call.Call.Args[len(call.Call.Args)-3])
			var miss []string
			if !caller.HasSuffix("cgnodes") {
				miss = append(miss, "the caller does not range over a.cgnodes")
			}
			if !site.HasSuffix("sites") {
				miss = append(miss, "the site does not range over the caller's sites")
			}
			if !sl.HasSuffix("targets") {
				miss = append(miss, "the callee does not range over the points-to set of site.targets")
			}
			if len(conds) > 0 {
				miss = append(miss, "the edge is added only under "+strings.Join(conds, " / "))
			}
			r.Check(len(miss) == 0, "R12.edges", key, c.Pos(call.Pos()),
				"every (contour, call site, solved target) triple yields a call-graph edge: callEdge depends on the iteration only",
				"not every solved call target becomes a call-graph edge ("+strings.Join(miss, "; ")+"): a callee only one contour (clone) of a function discovers has no incoming edge, drops out of the reachable set and is never summarised")
		}
	}
	if n == 0 {
		r.Fail("R12.edges", "internal/pointer.Analyze|callEdge", c.Pos(fn.Pos()), "Analyze no longer adds dynamic call edges (no call to callEdge)")
	}
}
