package rules

import (
	"fmt"
	"go/ast"
	"go/types"
	"sort"
	"strings"

	"golang.org/x/tools/go/ssa"

	"verif/checker/core"
)

func init() { Registry["C11"] = c11 }

// constraint emitters of the pointer analysis
var constraintEmitters = map[string]bool{"copy": true, "genLoad": true, "genStore": true, "addressOf": true, "genOffsetAddr": true,
	"genCall": true, "typeAssert": true, "genConv": true, "load": true, "store": true, "offsetAddr": true}

// kinds that legitimately generate no constraint (upstream's own reasons)
var noConstraintKinds = map[string]string{
	"*ssa.DebugRef":  "annotation only",
	"*ssa.BinOp":     "no binary operator yields a pointer-like value",
	"*ssa.If":        "control flow",
	"*ssa.Jump":      "control flow",
	"*ssa.RunDefers": "flow-insensitive: defers are 'called' where they are encountered (genCall on *ssa.Defer)",
	"*ssa.Range":     "handled by Next{Iter: Range}",
}

// operands that cannot carry a pointer into the instruction's result
var nonPointerOperands = map[string]string{
	"IndexAddr.Index": "integer index", "Index.Index": "integer index", "Lookup.Index": "map key / string index is not moved by a lookup",
	"Slice.Low": "integer bound", "Slice.High": "integer bound", "Slice.Max": "integer bound",
	"MakeChan.Size": "integer", "MakeMap.Reserve": "integer", "MakeSlice.Len": "integer", "MakeSlice.Cap": "integer",
	"If.Cond": "boolean", "Defer.DeferStack": "defer-stack handle of range-over-func", "DebugRef.X": "annotation", "BinOp.X": "no pointer result", "BinOp.Y": "no pointer result",
	"Range.X": "read by the Next arm through Iter.(*ssa.Range).X", "Next.Iter": "only its Range's X is used",
	"TypeAssert.X": "", "MakeClosure.Fn": "",
}

func c11(c *core.Ctx, r *core.Report) {
	r.Explain("R11.gen: in pointer.genInstr every ssa.Instruction kind has a case (panicking default; MultiConvert by build mode); the case of every pointer-relevant kind emits at least one constraint (copy/genLoad/genStore/addressOf/genOffsetAddr/genCall/typeAssert/genConv) and reads each pointer-carrying operand of the kind (operand table from go/ssa; reads counted in the case body and in the call-graph cone of the helpers it calls); kinds that may stay empty carry upstream's reason. R11.noeffect: the fork's soundness switch Config.NoEffectFunctions is written only by AddNoEffectFunction, which is called only from DoPointerAnalysis inside the loop over PointerConfig.UnsafeNoEffectFunctions, and findSummary is its only reader. R11.noeffect.pkg: the package-wide no-effect filter of findIntrinsic / findSummary compares the package path for equality; no strings/regexp/path matching function receives a value derived from (*types.Package).Path(). R11.sizeof: in genInstr a value copy whose size is a literal constant occurs only in the arm of a kind whose value is always one node (interface, slice, pointer, function); any other arm must size the copy by the value's type. R11.underlying: see underlyingRule. R11.queries: query registration covers Params, FreeVars and Operands() of every instruction of every filtered function.")
	r.NotDecided("aliasing soundness itself (agreement with runtime aliasing needs ground truth); the solver and HVN optimisation.")
	d := c.FindDispatch("internal/pointer", "analysis.genInstr", core.SSAPath, "Instruction")
	if d == nil {
		r.Fail("infra.anchor-unresolved", "R11.gen|internal/pointer.analysis.genInstr", "", "not found")
		return
	}
	r.Analysed(d.Func)
	tab, _ := c.OperandTable()
	g := c.RepoGraph()
	info := d.Pkg.TypesInfo
	for _, im := range d.Impls {
		name := core.ShortType(im)
		kind := strings.TrimPrefix(name, "*ssa.")
		key := d.Func + "|" + name
		cl := d.Switch.ClauseFor(im)
		if cl == nil {
			if name == "*ssa.MultiConvert" {
				r.Except("R11.gen", key, c.Pos(d.Switch.Stmt.Pos()), multiConvertWhy)
			} else {
				r.Fail("R11.gen", key, c.Pos(d.Switch.Stmt.Pos()), "no case: constraint generation panics or drops the kind")
			}
			continue
		}
		// emitters called in the clause, and helper cone
		emits := false
		var roots []*ssa.Function
		for _, o := range core.CallsIn(cl.Clause.Body, info) {
			if f, ok := o.(*types.Func); ok {
				if constraintEmitters[f.Name()] && f.Pkg() != nil && f.Pkg().Path() == core.Module+"/internal/pointer" {
					emits = true
				}
				if sf := c.Prog.FuncValue(f); sf != nil && c.IsRepoFunc(sf) {
					roots = append(roots, sf)
				}
			}
		}
		if !emits {
			// helpers the arm delegates to: the arm emits if addConstraint is in their call cone
			for f := range g.Cone(false, roots...) {
				if f.Name() == "addConstraint" && c.FuncPkgRel(f) == "internal/pointer" {
					emits = true
				}
			}
		}
		if !emits {
			if why, ok := noConstraintKinds[name]; ok {
				r.Except("R11.gen", key, c.Pos(cl.Clause.Pos()), why)
			} else {
				r.Fail("R11.gen", key, c.Pos(cl.Clause.Pos()), "case emits no constraint: the pointer flow of this instruction kind is dropped, points-to sets under-approximate (missed aliases)")
			}
			continue
		}
		r.OK("R11.gen", key, c.Pos(cl.Clause.Pos()), "case emits constraints")
		// operand reads: selectors in clause + type-scoped reads in helper cone
		read := map[string]bool{}
		ast.Inspect(cl.Clause, func(n ast.Node) bool {
			if se, ok := n.(*ast.SelectorExpr); ok {
				switch core.SSATypeName(info.TypeOf(se.X)) {
				case kind:
					read[se.Sel.Name] = true
				case "CallCommon":
					read["Call."+se.Sel.Name] = true
				case "SelectState":
					read["States."+se.Sel.Name] = true
				}
			}
			return true
		})
		cone := g.Cone(false, roots...)
		for k := range core.FieldReads(cone) {
			parts := strings.SplitN(k, ".", 2)
			switch parts[0] {
			case kind:
				read[parts[1]] = true
			case "CallCommon":
				read["Call."+parts[1]] = true
			case "SelectState":
				read["States."+parts[1]] = true
			}
		}
		// interface-typed case (ssa.CallInstruction): kinds share the CallCommon operands
		for _, op := range tab[kind] {
			okey := d.Func + "|" + kind + "." + op
			switch {
			case read[op]:
				r.OK("R11.operands", okey, c.Pos(cl.Clause.Pos()), "operand is read by the constraint generation for the kind")
			case nonPointerOperands[kind+"."+op] != "":
				r.Except("R11.operands", okey, c.Pos(cl.Clause.Pos()), nonPointerOperands[kind+"."+op])
			default:
				r.Fail("R11.operands", okey, c.Pos(cl.Clause.Pos()), "pointer-carrying operand "+kind+"."+op+" is never read when generating constraints for "+kind+": values flowing through it are missing from points-to sets")
			}
		}
	}
	// ---- R11.sizeof: a value copy with the constant size 1 is only right for kinds whose value is always a single node
	singleNode := map[string]string{
		"ChangeInterface":     "interface value: one node",
		"Slice":               "slice / string / pointer-to-array value: one node",
		"SliceToArrayPointer": "pointer value: one node",
		"MakeClosure":         "function value: one node",
		"Panic":               "panic operand is an interface: one node",
	}
	nCopy := 0
	seenClause := map[*ast.CaseClause]bool{}
	for _, im := range d.Impls {
		cl := d.Switch.ClauseFor(im)
		if cl == nil || seenClause[cl.Clause] {
			continue
		}
		seenClause[cl.Clause] = true
		var kinds []string
		for _, t := range cl.Types {
			kinds = append(kinds, strings.TrimPrefix(core.ShortType(t), "*ssa."))
		}
		k := 0
		// the arm's statements, and the bodies of helpers it hands the typed instruction to (an arm moved into
		// `genUnOp(cgn, instr)` is still the arm)
		var bodies []ast.Node
		for _, st := range cl.Clause.Body {
			bodies = append(bodies, st)
		}
		for _, o := range core.CallsIn(cl.Clause.Body, info) {
			f, ok := o.(*types.Func)
			if !ok || f.Pkg() == nil || f.Pkg().Path() != core.Module+"/internal/pointer" {
				continue
			}
			sig := f.Type().(*types.Signature)
			takesKind := false
			for i := 0; i < sig.Params().Len(); i++ {
				for _, kind := range kinds {
					if core.ShortType(sig.Params().At(i).Type()) == "*ssa."+kind {
						takesKind = true
					}
				}
			}
			if fd := c.DeclOfObj(f); takesKind && fd != nil && fd.Body != nil {
				bodies = append(bodies, fd.Body)
			}
		}
		for _, st := range bodies {
			ast.Inspect(st, func(n ast.Node) bool {
				call, ok := n.(*ast.CallExpr)
				if !ok || len(call.Args) != 3 {
					return true
				}
				if o := core.CalleeObj(call, info); o == nil || o.Name() != "copy" || o.Pkg() == nil || !strings.HasSuffix(o.Pkg().Path(), "internal/pointer") {
					return true
				}
				nCopy++
				lit, ok := ast.Unparen(call.Args[2]).(*ast.BasicLit)
				if !ok {
					return true
				}
				k++
				okAll := lit.Value == "1"
				for _, kind := range kinds {
					if singleNode[kind] == "" {
						okAll = false
					}
				}
				r.Check(okAll, "R11.sizeof", fmt.Sprintf("%s|%s|copy#%d", d.Func, strings.Join(kinds, ","), k), c.Pos(call.Pos()),
					"constant-size copy in the arm of a kind whose value is always a single node",
					"the value of a "+strings.Join(kinds, "/")+" instruction can be a struct or array (several nodes) but only "+lit.Value+" node is copied: pointers held in the remaining fields/elements are missing from the result's points-to sets (missed aliases)")
				return true
			})
		}
	}
	if nCopy < 8 {
		r.Fail("infra.floor", "R11.sizeof|copies", "", fmt.Sprintf("only %d copy constraints found in genInstr arms", nCopy))
	}
	r.Floor("R11.gen", 36, "37 kinds")
	r.Floor("R11.operands", 30, "pointer-relevant operands")

	// ---- R11.noeffect
	var writers, readers []string
	for _, fn := range c.RepoFunctions() {
		if strings.HasSuffix(c.Fset.Position(fn.Pos()).Filename, "_test.go") {
			continue
		}
		for _, b := range fn.Blocks {
			for _, ins := range b.Instrs {
				fa, ok := ins.(*ssa.FieldAddr)
				if !ok {
					continue
				}
				n, f := core.FieldOf(fa)
				if n == nil || n.Obj().Name() != "Config" || n.Obj().Pkg().Path() != core.Module+"/internal/pointer" || f.Name() != "NoEffectFunctions" {
					continue
				}
				isWrite := false
				for _, ref := range *fa.Referrers() {
					switch x := ref.(type) {
					case *ssa.Store:
						if x.Addr == fa {
							if _, isMake := x.Val.(*ssa.MakeMap); isMake {
								continue // installing an empty map in a literal
							}
							isWrite = true
						}
					case *ssa.UnOp:
						for _, r2 := range *x.Referrers() {
							if mu, ok := r2.(*ssa.MapUpdate); ok && mu.Map == x {
								isWrite = true
							}
						}
					}
				}
				if isWrite {
					writers = append(writers, c.FuncName(fn))
				} else {
					readers = append(readers, c.FuncName(fn))
				}
			}
		}
	}
	sort.Strings(writers)
	sort.Strings(readers)
	wOK := len(writers) == 1 && strings.HasSuffix(writers[0], "Config).AddNoEffectFunction")
	r.Check(wOK, "R11.noeffect", "internal/pointer.Config.NoEffectFunctions|writers", "", "only AddNoEffectFunction adds entries",
		"NoEffectFunctions is written by "+strings.Join(writers, ", ")+": functions can be silenced in the pointer analysis outside the unsafe-* option")
	if add := c.Func("internal/pointer", "Config.AddNoEffectFunction"); add != nil {
		var callers []string
		for _, cl := range c.RepoGraph().Callers[add] {
			if !strings.HasSuffix(c.Fset.Position(cl.Pos()).Filename, "_test.go") {
				callers = append(callers, c.FuncName(cl))
			}
		}
		sort.Strings(callers)
		okc := len(callers) == 1 && strings.HasSuffix(callers[0], "dataflow.DoPointerAnalysis")
		// inside DoPointerAnalysis the call must be inside a range over UnsafeNoEffectFunctions
		inLoop := false
		if fd, p := c.Decl("analysis/dataflow", "DoPointerAnalysis"); fd != nil {
			ast.Inspect(fd.Body, func(n ast.Node) bool {
				rs, ok := n.(*ast.RangeStmt)
				if !ok {
					return true
				}
				se, ok := ast.Unparen(rs.X).(*ast.SelectorExpr)
				if !ok || se.Sel.Name != "UnsafeNoEffectFunctions" {
					return true
				}
				for _, o := range core.CallsIn(rs.Body.List, p.TypesInfo) {
					if o.Name() == "AddNoEffectFunction" {
						inLoop = true
					}
				}
				// and the argument is the range value
				return true
			})
			// no other call outside that loop
			total := 0
			for _, o := range core.CallsIn(fd.Body.List, p.TypesInfo) {
				if o.Name() == "AddNoEffectFunction" {
					total++
				}
			}
			if total != 1 {
				inLoop = false
			}
		}
		r.Check(okc && inLoop, "R11.noeffect", "internal/pointer.Config.AddNoEffectFunction|callers", c.Pos(add.Pos()),
			"called only from DoPointerAnalysis, once, inside the loop over PointerConfig.UnsafeNoEffectFunctions",
			"AddNoEffectFunction is called from "+strings.Join(callers, ", ")+" or outside the loop over the unsafe-no-effect-functions option: user functions are silenced without an unsafe-* option")
	} else {
		r.Fail("infra.anchor-unresolved", "R11.noeffect|AddNoEffectFunction", "", "not found")
	}
	r.Floor("R11.noeffect", 2, "writers + callers")

	// ---- R11.queries
	if fd, p := c.Decl("analysis/dataflow", "DoPointerAnalysis"); fd != nil {
		hasParams, hasFree, hasInstr := false, false, false
		ast.Inspect(fd.Body, func(n ast.Node) bool {
			if rs, ok := n.(*ast.RangeStmt); ok {
				if se, ok := ast.Unparen(rs.X).(*ast.SelectorExpr); ok {
					if se.Sel.Name == "Params" {
						hasParams = true
					}
					if se.Sel.Name == "FreeVars" {
						hasFree = true
					}
				}
			}
			if call, ok := n.(*ast.CallExpr); ok {
				if o := core.CalleeObj(call, p.TypesInfo); o != nil && o.Name() == "addInstructionQuery" {
					hasInstr = true
				}
			}
			return true
		})
		r.Check(hasParams && hasFree && hasInstr, "R11.queries", "analysis/dataflow.DoPointerAnalysis|registration", c.Pos(fd.Pos()),
			"queries are registered for parameters, free variables and every instruction", "query registration skips parameters, free variables or instructions: their points-to sets are absent and alias questions answer 'no'")
	}
	if fd, _ := c.Decl("analysis/dataflow", "addInstructionQuery"); fd != nil {
		usesOperands := exprAny(fd.Body, func(n ast.Node) bool {
			se, ok := n.(*ast.SelectorExpr)
			return ok && se.Sel.Name == "Operands"
		})
		r.Check(usesOperands, "R11.queries", "analysis/dataflow.addInstructionQuery|operands", c.Pos(fd.Pos()),
			"every operand (ssa.Instruction.Operands) gets a query", "instruction queries are not derived from Operands(): some operand kinds have no points-to set")
	} else {
		r.Fail("infra.anchor-unresolved", "R11.queries|addInstructionQuery", "", "not found")
	}
	c11runtime(c, r)
	c11oneobject(c, r)
	// ---- R11.underlying
	underlyingRule(c, r, "R11.underlying", func(t core.TypeTest) bool {
		if t.PkgRel != "internal/pointer" {
			return false
		}
		// reflection modelling and the query-expression parser are outside the property's fragment
		return !strings.Contains(t.Pos, "/reflect.go:") && !strings.Contains(t.Pos, "/query.go:") && !strings.Contains(t.Pos, "/print.go:")
	}, map[string]string{
		"internal/pointer.*pointer.analysis.funcResults|n.typ.(*types.Signature)":        "typ of a function object node is fn.Signature (set by makeFunctionObject), an unnamed signature",
		"internal/pointer.*pointer.hvn.markIndirectNodes|h.a.nodes[id].typ.(*types.Array)": "node types come from flatten, whose *types.Named arm recurses on Underlying(): an array identity node carries the unnamed array type",
	}, "no constraint is generated: the values read are missing from points-to sets (missed aliases)")
}
