module c18iface
go 1.22
