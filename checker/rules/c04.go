package rules

import (
	"fmt"
	"go/ast"
	"go/constant"
	"go/token"
	"go/types"
	"os"
	"regexp"
	"sort"
	"strings"

	"golang.org/x/tools/go/ssa"

	"verif/checker/core"
)

func init() { Registry["C04"] = c04 }

// lowerFirst("Package") == "package"
func lowerFirst(s string) string {
	if s == "" {
		return s
	}
	return strings.ToLower(s[:1]) + s[1:]
}

// conjuncts flattens a && b && c.
func conjuncts(e ast.Expr) []ast.Expr {
	e = ast.Unparen(e)
	if b, ok := e.(*ast.BinaryExpr); ok && b.Op == token.LAND {
		return append(conjuncts(b.X), conjuncts(b.Y)...)
	}
	return []ast.Expr{e}
}

func disjuncts(e ast.Expr) []ast.Expr {
	e = ast.Unparen(e)
	if b, ok := e.(*ast.BinaryExpr); ok && b.Op == token.LOR {
		return append(disjuncts(b.X), disjuncts(b.Y)...)
	}
	return []ast.Expr{e}
}

// selPath renders a.b.c selector chains.
func selPath(e ast.Expr) []string {
	switch x := ast.Unparen(e).(type) {
	case *ast.Ident:
		return []string{x.Name}
	case *ast.SelectorExpr:
		return append(selPath(x.X), x.Sel.Name)
	}
	return nil
}

// callForms returns which of Call/Go/Defer a list of case types covers.
func callForms(ts []types.Type, c *core.Ctx) map[string]bool {
	res := map[string]bool{}
	_, ci := c.NamedIface(core.SSAPath, "CallInstruction")
	for _, t := range ts {
		if t == nil {
			continue
		}
		switch core.ShortType(t) {
		case "*ssa.Call":
			res["Call"] = true
		case "*ssa.Go":
			res["Go"] = true
		case "*ssa.Defer":
			res["Defer"] = true
		default:
			if it, ok := t.Underlying().(*types.Interface); ok && ci != nil && types.Identical(it, ci) {
				res["Call"], res["Go"], res["Defer"] = true, true, true
			}
		}
	}
	return res
}

func c04(c *core.Ctx, r *core.Report) {
	r.Explain("R04.pair: in CodeIdentifier.equalOnNonEmptyFields every conjunct pairs the compiled regex of field F with candidate field F and the emptiness test of specification field F (both in the regex arm and the plain arm); Kind is compared by equality. R04.compile: every regex slot is compiled by regexp.Compile from the like-named raw field (no anchoring added) and used with MatchString; the positional literal fills each slot with its own regex. R04.forms: every function that classifies call instructions against code identifiers accepts the three call forms (Call, Go, Defer), and entry-point scanning does not go through CallInstruction.Value() (nil for go/defer). R04.uses: the classifiers (IsEntrypointNode, IsMatchingCodeIDWithCallee, isMatchingCodeID and their helpers) never consult the Referrers of the instruction: identification is a function of the instruction and the specification, not of how the value is used. R04.kinds: IsEntrypointNode has an arm for each documented identifier kind (call, field read x2, alloc, field store with kind \"store\", channel receive with kind \"channel receive\"), the kind strings agreeing with the documentation.")
	r.NotDecided("matching over all programs x all RE2 patterns; callee resolution (C12).")
	c04pairSSA(c, r)
	c04matchonly(c, r)
	c04compileSSA(c, r)
	c04forms(c, r)
	c04kinds(c, r)
	c04uses(c, r)
}

func c04pair(c *core.Ctx, r *core.Report) {
	fd, p := c.Decl("analysis/config", "CodeIdentifier.equalOnNonEmptyFields")
	if fd == nil {
		r.Fail("infra.anchor-unresolved", "R04.pair|analysis/config.CodeIdentifier.equalOnNonEmptyFields", "", "not found")
		return
	}
	r.Analysed("analysis/config.CodeIdentifier.equalOnNonEmptyFields")
	recv := fd.Recv.List[0].Names[0].Name
	ref := fd.Type.Params.List[0].Names[0].Name
	_ = p
	var rets []*ast.ReturnStmt
	ast.Inspect(fd.Body, func(n ast.Node) bool {
		if rs, ok := n.(*ast.ReturnStmt); ok {
			rets = append(rets, rs)
		}
		return true
	})
	seenFields := map[string]int{}
	for ai, rs := range rets {
		arm := []string{"regex", "plain"}[min(ai, 1)]
		for _, cj := range conjuncts(rs.Results[0]) {
			ds := disjuncts(cj)
			if len(ds) == 1 {
				// Kind equality: cidRef.Kind == cid.Kind
				be, ok := ds[0].(*ast.BinaryExpr)
				if ok && be.Op == token.EQL {
					a, b := selPath(be.X), selPath(be.Y)
					if len(a) == 2 && len(b) == 2 && a[1] == b[1] && a[0] != b[0] {
						seenFields[a[1]]++
						r.OK("R04.pair", "analysis/config.equalOnNonEmptyFields|"+arm+"|"+a[1], c.Pos(cj.Pos()), "field compared by equality on both sides")
						continue
					}
				}
				r.Fail("R04.pair", "analysis/config.equalOnNonEmptyFields|"+arm+"|unrecognised", c.Pos(cj.Pos()), "conjunct has an unrecognised shape (undecided)")
				continue
			}
			var matchField, candField, emptyField string
			for _, dj := range ds {
				switch x := ast.Unparen(dj).(type) {
				case *ast.CallExpr: // cidRef.computedRegexs.<f>Regex.MatchString(cid.<G>)
					sp := selPath(x.Fun)
					if len(sp) == 4 && sp[0] == ref && sp[3] == "MatchString" && strings.HasSuffix(sp[2], "Regex") && len(x.Args) == 1 {
						matchField = strings.TrimSuffix(sp[2], "Regex")
						if ap := selPath(x.Args[0]); len(ap) == 2 && ap[0] == recv {
							candField = ap[1]
						}
					}
				case *ast.BinaryExpr:
					if x.Op != token.EQL {
						continue
					}
					a, b := selPath(x.X), selPath(x.Y)
					if tv, ok := p.TypesInfo.Types[x.Y]; ok && tv.Value != nil && tv.Value.Kind() == constant.String && constant.StringVal(tv.Value) == "" && len(a) == 2 && a[0] == ref {
						emptyField = a[1]
					} else if len(a) == 2 && len(b) == 2 {
						// cid.G == cidRef.H
						if a[0] == recv && b[0] == ref {
							candField, matchField = a[1], lowerFirst(b[1])
						} else if a[0] == ref && b[0] == recv {
							candField, matchField = b[1], lowerFirst(a[1])
						}
					}
				}
			}
			key := "analysis/config.equalOnNonEmptyFields|" + arm + "|" + emptyField
			ok := emptyField != "" && candField == emptyField && matchField == lowerFirst(emptyField)
			seenFields[emptyField]++
			r.Check(ok, "R04.pair", key, c.Pos(cj.Pos()), "specification field "+emptyField+" is matched against candidate field "+candField+" with its own pattern",
				fmt.Sprintf("conjunct for specification field %q uses pattern/field %q against candidate field %q: a specification of %s also constrains (or fails to constrain) another field - locations are matched that the specification does not name", emptyField, matchField, candField, emptyField))
		}
	}
	// every string field of CodeIdentifier used for matching appears in both arms
	r.Floor("R04.pair", 16, "8 fields + Kind in two arms")
}

func c04compile(c *core.Ctx, r *core.Report) {
	fd, p := c.Decl("analysis/config", "compileRegexes")
	if fd == nil {
		r.Fail("infra.anchor-unresolved", "R04.compile|analysis/config.compileRegexes", "", "not found")
		return
	}
	r.Analysed("analysis/config.compileRegexes")
	compiledFrom := map[string]string{} // var name -> field
	ast.Inspect(fd.Body, func(n ast.Node) bool {
		as, ok := n.(*ast.AssignStmt)
		if !ok || len(as.Rhs) != 1 || len(as.Lhs) != 2 {
			return true
		}
		call, ok := as.Rhs[0].(*ast.CallExpr)
		if !ok {
			return true
		}
		if o := core.CalleeObj(call, p.TypesInfo); o == nil || o.Pkg() == nil || o.Pkg().Path() != "regexp" || o.Name() != "Compile" {
			return true
		}
		if id, ok := as.Lhs[0].(*ast.Ident); ok && len(call.Args) == 1 {
			if sp := selPath(call.Args[0]); len(sp) == 2 {
				compiledFrom[id.Name] = sp[1]
			} else {
				compiledFrom[id.Name] = "<expression>"
			}
		}
		return true
	})
	var names []string
	for v := range compiledFrom {
		names = append(names, v)
	}
	sort.Strings(names)
	for _, v := range names {
		want := strings.TrimSuffix(v, "Regex")
		r.Check(lowerFirst(compiledFrom[v]) == want || strings.EqualFold(compiledFrom[v], want), "R04.compile", "analysis/config.compileRegexes|"+v, c.Pos(fd.Pos()),
			v+" is compiled from the raw field "+compiledFrom[v]+" (unanchored, as written)", v+" is compiled from "+compiledFrom[v]+": the pattern the user wrote for one field is applied to another, or is altered before compilation")
	}
	// positional literal &codeIdentifierRegex{...}: i-th element is the variable named like the i-th field
	ast.Inspect(fd.Body, func(n ast.Node) bool {
		cl, ok := n.(*ast.CompositeLit)
		if !ok {
			return true
		}
		st, ok := p.TypesInfo.TypeOf(cl).Underlying().(*types.Struct)
		if !ok || st.NumFields() < 6 {
			return true
		}
		for i, el := range cl.Elts {
			fieldName := ""
			val := el
			if kv, ok := el.(*ast.KeyValueExpr); ok {
				fieldName = kv.Key.(*ast.Ident).Name
				val = kv.Value
			} else if i < st.NumFields() {
				fieldName = st.Field(i).Name()
			}
			id, _ := val.(*ast.Ident)
			r.Check(id != nil && id.Name == fieldName, "R04.compile", "analysis/config.compileRegexes|slot|"+fieldName, c.Pos(el.Pos()),
				"slot holds the regex compiled for it", "regex slot "+fieldName+" is filled with another field's regex")
		}
		return true
	})
	r.Floor("R04.compile", 16, "8 compiles + 8 slots")
}

func c04forms(c *core.Ctx, r *core.Report) { callFormRules(c, r, "R04.forms") }

// callFormRules checks that call classifiers accept the three call forms (shared by C03 and C04).
func callFormRules(c *core.Ctx, r *core.Report, rule string) {
	sites := []struct{ rel, fn, ifacePkg, iface string }{
		{"internal/analysisutil", "IsEntrypointNode", core.SSAPath, "Node"},
		{"analysis/taint", "IsMatchingCodeIDWithCallee", core.SSAPath, "Node"},
	}
	for _, s := range sites {
		d := c.FindDispatch(s.rel, s.fn, s.ifacePkg, s.iface)
		if d == nil {
			r.Fail("infra.anchor-unresolved", rule+"|"+s.rel+"."+s.fn, "", "call classifier not found")
			continue
		}
		r.Analysed(d.Func)
		forms := map[string]bool{}
		for _, cl := range d.Switch.Clauses {
			f := callForms(cl.Types, c)
			if len(f) > 0 && len(cl.Clause.Body) > 0 {
				for k := range f {
					forms[k] = true
				}
			}
		}
		for _, form := range []string{"Call", "Defer", "Go"} {
			r.Check(forms[form], rule, d.Func+"|"+form, c.Pos(d.Switch.Stmt.Pos()), "classifier has an arm for *ssa."+form,
				"classifier has no arm for *ssa."+form+": a "+strings.ToLower(form)+"-form call to a function matching a specification is not identified (e.g. `defer os.RemoveAll(path)` is never a backtrace point or source)")
		}
	}
	callValueRule(c, r, rule)
	r.Floor(rule, 7, "2 classifiers x 3 forms + scan")
}

func c04kinds(c *core.Ctx, r *core.Report) {
	// SSA, helpers inlined: for the arm of each documented instruction shape, the Kind stored in the CodeIdentifier(s)
	// the arm builds (directly or in a helper it calls, the kind possibly passed as an argument).
	fn := c.Func("internal/analysisutil", "IsEntrypointNode")
	if fn == nil {
		return
	}
	doc, _ := os.ReadFile(c.RepoDir + "/doc/01_taint.md")
	docKinds := map[string]bool{}
	for _, m := range regexp.MustCompile(`kind:\s*"([^"]+)"`).FindAllStringSubmatch(string(doc), -1) {
		docKinds[m[1]] = true
	}
	want := map[string]string{"Call": "", "Field": "", "FieldAddr": "", "Alloc": "", "Store": "store", "UnOp": "channel receive"}
	var ks []string
	for k := range want {
		ks = append(ks, k)
	}
	sort.Strings(ks)
	for _, k := range ks {
		key := "internal/analysisutil.IsEntrypointNode|kind|*ssa." + k
		allEntries, ifBlocks := core.TypeCaseEntry(fn, k)
		// only arms of the switch over the node parameter (nested assertions on operands are not arms)
		var entries []*ssa.BasicBlock
		for i, e := range allEntries {
			iff := ifBlocks[i].Instrs[len(ifBlocks[i].Instrs)-1].(*ssa.If)
			ta := iff.Cond.(*ssa.Extract).Tuple.(*ssa.TypeAssert)
			if _, isParam := ta.X.(*ssa.Parameter); isParam {
				entries = append(entries, e)
			}
		}
		if len(entries) == 0 {
			r.Fail("R04.kinds", key, c.Pos(fn.Pos()), "no arm for *ssa."+k+": the documented identifier kind selecting these instructions never matches")
			continue
		}
		region := map[*ssa.BasicBlock]bool{}
		for _, e := range entries {
			for _, b := range fn.Blocks {
				if e.Dominates(b) {
					region[b] = true
				}
			}
		}
		kinds := map[string]bool{}
		nIdent := 0
		for _, ii := range core.InlinedInstrsFrom(c, fn, region, c.Depth(3), func(ins ssa.Instruction) bool {
			st, ok := ins.(*ssa.Store)
			if !ok {
				return false
			}
			n, f := core.FieldOf(st.Addr)
			return n != nil && strings.HasSuffix(qualNamed(n), "config.CodeIdentifier") && (f.Name() == "Kind" || f.Name() == "Package" || f.Name() == "Type" || f.Name() == "Method" || f.Name() == "Field")
		}) {
			st := ii.Ins.(*ssa.Store)
			_, f := core.FieldOf(st.Addr)
			if f.Name() != "Kind" {
				nIdent++
				continue
			}
			for k := range ii.Slice(st.Val).Consts {
				kinds[k] = true
			}
		}
		pos := c.Pos(entries[0].Instrs[0].Pos())
		switch {
		case nIdent == 0:
			r.Fail("R04.kinds", key, pos, "the arm for *ssa."+k+" builds no code identifier (directly or in the helpers it calls): the documented identifier kind selecting these instructions never matches")
		case want[k] == "":
			delete(kinds, "")
			r.Check(len(kinds) == 0, "R04.kinds", key, pos, "arm builds an identifier with the default kind", "arm sets an undocumented Kind: default-kind specifications no longer match")
		default:
			r.Check(kinds[want[k]] && docKinds[want[k]], "R04.kinds", key, pos, "arm builds an identifier with the documented kind \""+want[k]+"\"",
				"arm does not build an identifier of kind \""+want[k]+"\" (documented in doc/01_taint.md): specifications of that kind select nothing")
		}
	}
	r.Floor("R04.kinds", 6, "six identifier shapes")
}
