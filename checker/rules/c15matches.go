package rules

import (
	"go/types"
	"strings"

	"golang.org/x/tools/go/ssa"

	"verif/checker/core"
)

// c15matches (R15.matches): the convergence test of the escape fixpoints,
// EscapeGraph.Matches, must compare the CONTENTS of every ordering-relevant
// store (edges and status) of the two graphs: a graph whose only change is a
// raised status (a bare `go f(x)`) must not match its predecessor, or the block
// is not re-propagated and later instructions are classified against a stale
// graph. For each store F the comparison has one of two shapes, on SSA with
// helpers inlined: a deep comparison call (reflect.DeepEqual, maps.Equal*) whose
// two operands are F of the receiver and F of the argument, or an element-wise
// comparison - a range over F of one graph together with a lookup in F of the
// other one. Reading only len(F) does not compare contents.
func c15matches(c *core.Ctx, r *core.Report) { c15matchesAs(c, r, "R15.matches") }

func c15matchesAs(c *core.Ctx, r *core.Report, rule string) {
	fn := c.Func("analysis/escape", "EscapeGraph.Matches")
	if fn == nil || len(fn.Params) != 2 {
		r.Fail("infra.anchor-unresolved", rule+"|analysis/escape.EscapeGraph.Matches", "", "not found")
		return
	}
	r.Analysed("analysis/escape.EscapeGraph.Matches")
	g, h := fn.Params[0], fn.Params[1]
	type use struct{ deep, ranged, looked map[*ssa.Parameter]bool }
	uses := map[string]*use{}
	get := func(f string) *use {
		if uses[f] == nil {
			uses[f] = &use{map[*ssa.Parameter]bool{}, map[*ssa.Parameter]bool{}, map[*ssa.Parameter]bool{}}
		}
		return uses[f]
	}
	fieldOf := func(ii core.InlinedInstr, v ssa.Value) (string, *ssa.Parameter) {
		p, root := ii.PathAndRoot(v)
		prm, _ := root.(*ssa.Parameter)
		if prm != g && prm != h {
			return "", nil
		}
		if i := strings.Index(p, "."); i >= 0 {
			p = p[:i]
		}
		return p, prm
	}
	for _, ii := range core.InlinedInstrs(c, fn, c.Depth(2), func(ins ssa.Instruction) bool {
		switch ins.(type) {
		case *ssa.Call, *ssa.Range, *ssa.Lookup:
			return true
		}
		return false
	}) {
		switch x := ii.Ins.(type) {
		case *ssa.Call:
			sc := x.Call.StaticCallee()
			if sc == nil || sc.Pkg == nil || len(x.Call.Args) < 2 {
				continue
			}
			pk := sc.Pkg.Pkg.Path()
			if !((pk == "reflect" && sc.Name() == "DeepEqual") || (pk == "maps" && strings.HasPrefix(sc.Name(), "Equal"))) {
				continue
			}
			// operands may be boxed in interfaces
			unbox := func(v ssa.Value) ssa.Value {
				if mi, ok := v.(*ssa.MakeInterface); ok {
					return mi.X
				}
				return v
			}
			f0, p0 := fieldOf(ii, unbox(x.Call.Args[0]))
			f1, p1 := fieldOf(ii, unbox(x.Call.Args[1]))
			if f0 != "" && f0 == f1 && p0 != p1 {
				get(f0).deep[p0], get(f0).deep[p1] = true, true
			}
		case *ssa.Range:
			if _, isMap := types.Unalias(x.X.Type()).Underlying().(*types.Map); isMap {
				if f, p := fieldOf(ii, x.X); f != "" {
					get(f).ranged[p] = true
				}
			}
		case *ssa.Lookup:
			if _, isMap := types.Unalias(x.X.Type()).Underlying().(*types.Map); isMap {
				if f, p := fieldOf(ii, x.X); f != "" {
					get(f).looked[p] = true
				}
			}
		}
	}
	for _, f := range []string{"edges", "status"} {
		u := get(f)
		ok := (u.deep[g] && u.deep[h]) || (u.ranged[g] && u.looked[h]) || (u.ranged[h] && u.looked[g])
		r.Check(ok, rule, "analysis/escape.EscapeGraph.Matches|compares-contents|"+f, c.Pos(fn.Pos()),
			"the contents of "+f+" of both graphs are compared",
			"Matches does not compare the contents of `"+f+"` of the two graphs (no deep comparison of g."+f+" with h."+f+", no range over one with lookups in the other): a graph that differs only there - e.g. a status raised by a bare `go f(x)` - is taken as converged, the block is not re-propagated and later accesses are classified against a stale graph")
	}
}
