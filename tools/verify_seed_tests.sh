#!/bin/bash
# usage: verify_seed_tests.sh <id> <patch.diff>   -- runs the full pinned suite on a scratch worktree with only the patch applied
export GOFLAGS=-mod=mod GOPROXY=off GOSUMDB=off GOTOOLCHAIN=local
id=$1; patch=$(readlink -f $2)
wt=/tmp/sv/$id; mkdir -p /tmp/sv
git -C /repo worktree add -q --detach $wt HEAD || exit 2
cd $wt && git apply $patch || exit 2
go build ./... > /tmp/sv/$id.log 2>&1 || { echo BUILD-FAIL >> /tmp/sv/$id.log; }
go test -vet=off -count=1 -p 2 -timeout 120m ./... >> /tmp/sv/$id.log 2>&1
echo "EXIT=$?" >> /tmp/sv/$id.log
cd /tmp; git -C /repo worktree remove --force $wt
