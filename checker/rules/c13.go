package rules

import (
	"go/ast"
	"strings"

	"golang.org/x/tools/go/ssa"

	"verif/checker/core"
)

func init() { Registry["C13"] = c13 }

func c13(c *core.Ctx, r *core.Report) {
	r.Explain("R13.check: on the SSA control-flow graph of taint.(*Visitor).addNext every path from entry to the enqueue either takes the UseEscapeAnalysis=false branch or calls manageEscapeContexts; every path through manageEscapeContexts ends in checkEscape, AddError, or the documented 'no escape information' warning (reported as a degradation path); checkEscape records an escape (addNewEscape) for every non-call instruction of the node with a non-nil rationale; the source node is checked in initEscapeAnalysisInfo, which Visit calls under UseEscapeAnalysis. R13.resolve: the call-site-to-callee context mapping (escapeCallsiteInfoImpl.Resolve and its closures) binds the invocation receiver (node of Call.Value to the node of a callee parameter), the arguments (Call.Args to Params) and captured objects (from Call.Value to FreeVars); bindings are recognised as calls of a func(*Node,*Node) closure whose operand slices read those access paths. R13.converge: the convergence test EscapeGraph.Matches compares the contents of edges and status of both graphs (deep comparison or range + lookup), see R15.matches. R13.return: in the ReturnValNode arm of taint.Visitor.Visit every call site whose Out() edges are iterated is itself handed to the escape check (KNOWN-FINDING today). R13.fail: non-empty Escapes forces the failure exit (shared exit rule). R13.locality: depends on the classification rules of C14 (cross-reference).")
	r.NotDecided("the three-analysis composition: that escape classification + taint traversal together cover every schedule-observable flow.")
	fn := c.Func("analysis/taint", "Visitor.addNext")
	if fn == nil {
		r.Fail("infra.anchor-unresolved", "R13.check|analysis/taint.Visitor.addNext", "", "not found")
		return
	}
	r.Analysed("analysis/taint.Visitor.addNext")
	// enqueue block: the call to AddChild / the append that extends the queue: take the block containing the static call AddChild
	var enq *ssa.BasicBlock
	for _, b := range fn.Blocks {
		for _, ins := range b.Instrs {
			if sc := core.StaticCalleeOf(ins); sc != nil && sc.Name() == "AddChild" {
				enq = b
			}
		}
	}
	if enq == nil {
		r.Fail("infra.anchor-unresolved", "R13.check|addNext|enqueue", c.Pos(fn.Pos()), "enqueue site (AddChild) not found")
	} else {
		paths, complete := core.EnumeratePaths(fn.Blocks[0], func(b *ssa.BasicBlock) bool { return b == enq }, 50000)
		if !complete {
			r.Fail("R13.check", "analysis/taint.Visitor.addNext|path-limit", c.Pos(fn.Pos()), "too many paths (undecided)")
		}
		n, bad := 0, 0
		for _, p := range paths {
			if p.Blocks[len(p.Blocks)-1] != enq {
				continue
			}
			n++
			if core.PathHas(p, true, core.CallsNamed("manageEscapeContexts")) {
				continue
			}
			if strings.Contains(p.Describe(), "UseEscapeAnalysis=false") {
				continue
			}
			bad++
		}
		r.Check(n > 0 && bad == 0, "R13.check", "analysis/taint.Visitor.addNext|enqueue-passes-escape-check", c.Pos(enq.Instrs[0].Pos()),
			"every path to the enqueue with use-escape-analysis on calls manageEscapeContexts", "some path enqueues the next node without the escape check although use-escape-analysis is on: data reaching that node may have escaped its goroutine with neither a flow nor an escape reported")
		r.Extra["addNext_paths_to_enqueue"] = n
	}
	if mf := c.Func("analysis/taint", "Visitor.manageEscapeContexts"); mf != nil {
		r.Analysed("analysis/taint.Visitor.manageEscapeContexts")
		paths, complete := core.EnumeratePaths(mf.Blocks[0], func(b *ssa.BasicBlock) bool { return false }, 50000)
		if !complete {
			r.Fail("R13.check", "analysis/taint.Visitor.manageEscapeContexts|path-limit", c.Pos(mf.Pos()), "too many paths (undecided)")
		}
		n, bad, degraded := 0, 0, 0
		for _, p := range paths {
			last := p.Blocks[len(p.Blocks)-1]
			if _, ok := last.Instrs[len(last.Instrs)-1].(*ssa.Return); !ok {
				continue
			}
			n++
			switch {
			case core.PathHas(p, true, core.CallsNamed("checkEscape")), core.PathHas(p, true, core.CallsNamed("AddError")):
			case core.PathHas(p, true, core.CallsNamed("Warnf")):
				degraded++
			default:
				bad++
			}
		}
		r.Check(n > 0 && bad == 0, "R13.check", "analysis/taint.Visitor.manageEscapeContexts|every-path-checks-or-reports", c.Pos(mf.Pos()),
			"every path ends in checkEscape, an error, or the no-escape-information warning", "a path through manageEscapeContexts neither checks escape nor reports anything: a node is accepted silently")
		r.Extra["manageEscapeContexts_paths"] = n
		r.Extra["manageEscapeContexts_degradation_paths"] = degraded
	} else {
		r.Fail("infra.anchor-unresolved", "R13.check|manageEscapeContexts", "", "not found")
	}
	if fd, p := c.Decl("analysis/taint", "Visitor.checkEscape"); fd != nil {
		records := false
		overMarks := false
		ast.Inspect(fd.Body, func(n ast.Node) bool {
			if rs, ok := n.(*ast.RangeStmt); ok {
				if exprAny(rs.X, func(m ast.Node) bool { se, ok := m.(*ast.SelectorExpr); return ok && se.Sel.Name == "Marks" }) {
					overMarks = true
					if exprAny(rs.Body, func(m ast.Node) bool {
						call, ok := m.(*ast.CallExpr)
						if !ok {
							return false
						}
						o := core.CalleeObj(call, p.TypesInfo)
						return o != nil && o.Name() == "addNewEscape"
					}) {
						records = true
					}
				}
			}
			return true
		})
		r.Check(overMarks && records, "R13.check", "analysis/taint.Visitor.checkEscape|records-escape", c.Pos(fd.Pos()), "checkEscape iterates over all instructions of the node (Marks) and records escapes", "checkEscape does not iterate over the node's instructions or never records an escape")
	} else {
		r.Fail("infra.anchor-unresolved", "R13.check|checkEscape", "", "not found")
	}
	if fd, p := c.Decl("analysis/taint", "Visitor.initEscapeAnalysisInfo"); fd != nil {
		ok := exprAny(fd.Body, func(n ast.Node) bool {
			call, isC := n.(*ast.CallExpr)
			if !isC {
				return false
			}
			o := core.CalleeObj(call, p.TypesInfo)
			return o != nil && o.Name() == "checkEscape"
		})
		r.Check(ok, "R13.check", "analysis/taint.Visitor.initEscapeAnalysisInfo|checks-source", c.Pos(fd.Pos()), "the source node itself is escape-checked", "the source node is not escape-checked")
	}
	if vf := c.Func("analysis/taint", "Visitor.Visit"); vf != nil {
		// call to initEscapeAnalysisInfo dominated by UseEscapeAnalysis true edge, and it dominates the loop
		ok := false
		for _, b := range vf.Blocks {
			for _, ins := range b.Instrs {
				if sc := core.StaticCalleeOf(ins); sc != nil && sc.Name() == "initEscapeAnalysisInfo" {
					if len(b.Preds) == 1 {
						if iff, isIf := b.Preds[0].Instrs[len(b.Preds[0].Instrs)-1].(*ssa.If); isIf && strings.Contains(core.DescribeValue(iff.Cond, 0), "UseEscapeAnalysis") && b.Preds[0].Succs[0] == b {
							ok = true
						}
					}
				}
			}
		}
		r.Check(ok, "R13.check", "analysis/taint.Visitor.Visit|init-under-option", c.Pos(vf.Pos()), "Visit initialises escape information for the source when use-escape-analysis is on", "Visit does not initialise escape information under use-escape-analysis")
	}
	r.Floor("R13.check", 5, "addNext, manageEscapeContexts, checkEscape, init, Visit")
	exitRule(c, r, "R13.fail", "Escapes")
	c13resolve(c, r)
	c15matchesAs(c, r, "R13.converge")
	c13return(c, r)
}
