module goforms
go 1.22
