package rules

import (
	"fmt"
	"go/types"
	"strings"
	"sync"

	"verif/checker/core"
)

var (
	growControlOnce sync.Once
	growControlErr  string
)

// c10load (R10.load): every specification entry loaded from every
// dataflow-specs file takes part: the list of loaded contracts is grow-only. No
// code of analysis/dataflow overwrites an element of a []Contract (a "merge"
// that lets a later entry for the same interface or object replace an earlier
// one silently drops the methods listed only in the earlier entry: they get no
// key in DataFlowContracts, are not linked, and their bodies are analysed
// instead of the specification).
func c10load(c *core.Ctx, r *core.Report) {
	growControlOnce.Do(func() {
		p, err := core.Fixture("growonly")
		if err != nil {
			growControlErr = err.Error()
			return
		}
		fns := core.FixtureFuncs(p)
		isEntry := func(t types.Type) bool { return strings.HasSuffix(t.String(), ".entry") }
		if fns["Merge"] == nil || fns["Append"] == nil || len(core.ElementStores(fns["Merge"], isEntry)) != 1 || len(core.ElementStores(fns["Append"], isEntry)) != 0 {
			growControlErr = "fixture: expected one element overwrite in Merge and none in Append"
		}
	})
	if growControlErr != "" {
		r.Fail("infra.control", "R10.load|growonly-fixture", "", "positive control failed: "+growControlErr)
		return
	}
	isContract := func(t types.Type) bool {
		n, ok := types.Unalias(t).(*types.Named)
		return ok && n.Obj().Name() == "Contract" && n.Obj().Pkg() != nil && strings.HasSuffix(n.Obj().Pkg().Path(), "analysis/dataflow")
	}
	nFn, n := 0, 0
	for _, fn := range c.RepoFunctions() {
		rel := c.FuncPkgRel(fn)
		if (rel != "analysis/dataflow" && rel != "analysis/summaries") || strings.HasSuffix(c.Fset.Position(fn.Pos()).Filename, "_test.go") {
			continue
		}
		nFn++
		for _, st := range core.ElementStores(fn, isContract) {
			n++
			r.Fail("R10.load", fmt.Sprintf("%s|contract-overwrite#%d", c.FuncName(fn), n), c.Pos(st.Pos()),
				"an element of a list of loaded dataflow contracts is overwritten: the entry that was there (and the methods only it lists) no longer takes part; its functions get no specification key, are not linked, and their bodies are analysed instead of the specification")
		}
	}
	if n == 0 {
		r.OK("R10.load", "analysis/dataflow|contracts-grow-only", "", fmt.Sprintf("no element of a []Contract is overwritten in %d functions", nFn))
	}
	// the registration loop of NewAnalyzerState registers Key(method) for the methods of the loaded contracts
	if fn := c.Func("analysis/dataflow", "NewAnalyzerState"); fn != nil {
		r.Analysed("analysis/dataflow.NewAnalyzerState")
	}
}
