package main

import (
	"fmt"
	"os"

	"github.com/awslabs/ar-go-tools/analysis"
	"github.com/awslabs/ar-go-tools/analysis/config"
	"github.com/awslabs/ar-go-tools/analysis/dataflow"
	"golang.org/x/tools/go/ssa"
)

func main() {
	os.Chdir("prog")
	prog, pkgs, err := analysis.LoadProgram(analysis.LoadProgramOptions{BuildMode: ssa.InstantiateGenerics}, []string{"main.go"})
	if err != nil {
		panic(err)
	}
	cfg := config.NewDefault()
	state, err := dataflow.NewInitializedAnalyzerState(prog, pkgs, config.NewLogGroup(cfg), cfg)
	if err != nil {
		panic(err)
	}
	analysis.RunIntraProceduralPass(state, 1, analysis.IntraAnalysisParams{
		ShouldBuildSummary: dataflow.ShouldBuildSummary,
		ShouldTrack:        func(*dataflow.AnalyzerState, ssa.Node) bool { return false },
	})
	for fn, sm := range state.FlowGraph.Summaries {
		if fn.Name() != "main" || fn.Pkg == nil || fn.Pkg.Pkg.Name() != "main" {
			continue
		}
		sm.ForAllNodes(func(n dataflow.GraphNode) {
			for dst, infos := range n.Out() {
				if len(infos) > 1 {
					fmt.Printf("OUT %s -> %s :", n, dst)
					for _, i := range infos {
						fmt.Printf(" idx=%d", i.Index)
					}
					in, ok := dst.In()[n]
					fmt.Printf("\nIN  %s <- %s : present=%v idx=%d (single entry)\n", dst, n, ok, in.Index)
				}
			}
		})
	}
}
