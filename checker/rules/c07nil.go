package rules

import (
	"fmt"
	"strings"
	"sync"

	"verif/checker/core"
)

var (
	nilControlOnce sync.Once
	nilControlErr  string
)

// c07nil (R07.nilstack): the call stack and the closure stack of a traversal
// state are nil when there is no context (dataflow.NodeTree methods are
// nil-safe, field accesses are not). In the taint and backtrace visitors every
// field access through such a pointer is dominated by a nil test of the same
// access path - directly (`cur.Trace != nil`), or through a call that returns
// nil whenever that argument is nil (UnwindCallstackFromCallee(..., cur.Trace)
// != nil). An unguarded access crashes the analysis on programs that reach the
// node without context (e.g. after the data went through a global).
func c07nil(c *core.Ctx, r *core.Report) {
	r.Explain("R07.nilstack: in analysis/taint and analysis/backtrace every field access through a *dataflow.NodeTree (call stack / closure stack) is dominated by a nil test of the same access path, directly or through a call that returns nil for a nil argument; embedded positive controls.")
	isStack := func(t string) bool { return strings.Contains(t, "NodeTree") || strings.HasSuffix(t, "fixture.stack") }
	nilControlOnce.Do(func() {
		p, err := core.Fixture("nilguard")
		if err != nil {
			nilControlErr = err.Error()
			return
		}
		fns := core.FixtureFuncs(p)
		for name, want := range map[string]int{"Bad": 1, "Good": 0, "GoodDerived": 0} {
			if fns[name] == nil || len(core.UnguardedDerefs(c, fns[name], isStack)) != want {
				nilControlErr = fmt.Sprintf("fixture %s: want %d unguarded dereference(s)", name, want)
				return
			}
		}
	})
	if nilControlErr != "" {
		r.Fail("infra.control", "R07.nilstack|nilguard-fixture", "", "positive control failed: "+nilControlErr)
		return
	}
	r.OK("R07.nilstack", "engine|positive-controls", "", "embedded fixture: unguarded dereference reported, direct and derived guards accepted")
	n := 0
	for _, fn := range c.RepoFunctions() {
		rel := c.FuncPkgRel(fn)
		if (rel != "analysis/taint" && rel != "analysis/backtrace") || strings.HasSuffix(c.Fset.Position(fn.Pos()).Filename, "_test.go") {
			continue
		}
		seen := map[string]int{}
		for _, d := range core.UnguardedDerefs(c, fn, isStack) {
			n++
			_, f := core.FieldOf(d)
			desc := core.DescribeValue(d.X, 0)
			key := fmt.Sprintf("%s|%s.%s", c.FuncName(fn), desc, f.Name())
			seen[key]++
			if seen[key] > 1 {
				key = fmt.Sprintf("%s#%d", key, seen[key])
			}
			r.Fail("R07.nilstack", key, c.Pos(d.Pos()), "field "+f.Name()+" of "+desc+" is read without a dominating nil test of that stack: the analysis panics (nil pointer dereference) when the node is reached without call context")
		}
	}
	if n == 0 {
		r.OK("R07.nilstack", "visitors|stack-dereferences-guarded", "", "every field access through a call-stack / closure-stack pointer is guarded")
	}
}
