package rules

import (
	"fmt"
	"go/token"
	"go/types"
	"sort"
	"strings"

	"golang.org/x/tools/go/ssa"

	"verif/checker/core"
)

// edgeLoopRule (R01.edgeloop / R03.edgeloop): when the traversal expands a node
// it follows ALL the edges of the node: inside a loop over N.Out() / N.In() the
// call handing the edge to addNext is controlled - within one iteration - only
// by the tuple-index filter of the edge label (an integer comparison involving
// an Index) or by nil tests. A test of the dynamic kind of the target node, or
// any other predicate of it, drops the edges to the nodes it rejects (the stop
// criteria proper live in addNext, see R01.stops). Decided on SSA with helpers
// inlined; conditions at the call sites leading from the loop body to addNext
// count as in-loop conditions.
func edgeLoopRule(c *core.Ctx, r *core.Report, rule, pkgRel, fnName string, floor int) {
	r.Explain(rule + ": in " + pkgRel + "." + fnName + " (helpers inlined) every call of addNext made inside a loop over the edges of a node (range N.Out() / N.In()) is control dependent, within an iteration, only on integer comparisons involving a tuple Index and on nil tests.")
	fn := c.Func(pkgRel, fnName)
	if fn == nil {
		r.Fail("infra.anchor-unresolved", rule+"|"+pkgRel+"."+fnName, "", "not found")
		return
	}
	hdrs := map[*ssa.Function]map[*ssa.BasicBlock]bool{}
	isHeader := func(b *ssa.BasicBlock) bool {
		f := b.Parent()
		if hdrs[f] == nil {
			hdrs[f] = map[*ssa.BasicBlock]bool{}
			for _, l := range core.Loops(f) {
				hdrs[f][l.Header] = true
			}
		}
		return hdrs[f][b]
	}
	allowed := func(cond core.InlinedInstr) bool {
		bo, ok := cond.Ins.(*ssa.If).Cond.(*ssa.BinOp)
		if !ok {
			return false
		}
		switch bo.Op {
		case token.EQL, token.NEQ, token.LSS, token.LEQ, token.GTR, token.GEQ:
		default:
			return false
		}
		for _, x := range []ssa.Value{bo.X, bo.Y} {
			if k, isC := x.(*ssa.Const); isC && k.IsNil() {
				return true
			}
		}
		if b, ok := types.Unalias(bo.X.Type()).Underlying().(*types.Basic); !ok || b.Info()&types.IsInteger == 0 {
			return false
		}
		for _, x := range []ssa.Value{bo.X, bo.Y} {
			if p, _ := cond.PathAndRoot(x); p == "Index" || strings.HasSuffix(p, ".Index") {
				return true
			}
			if call, ok := x.(*ssa.Call); ok {
				name := ""
				if call.Call.IsInvoke() {
					name = call.Call.Method.Name()
				} else if sc := call.Call.StaticCallee(); sc != nil {
					name = sc.Name()
				}
				if name == "Index" {
					return true
				}
			}
		}
		return false
	}
	n := 0
	var bad []string
	// the function and the closures defined in it (a loop shared by several arms may live in a local closure)
	roots := []*ssa.Function{fn}
	for i := 0; i < len(roots); i++ {
		roots = append(roots, roots[i].AnonFuncs...)
	}
	var all []core.InlinedInstr
	for _, root := range roots {
		all = append(all, core.InlinedInstrs(c, root, c.Depth(2), func(ins ssa.Instruction) bool {
			call, ok := ins.(*ssa.Call)
			if !ok {
				return false
			}
			sc := call.Call.StaticCallee()
			return sc != nil && sc.Name() == "addNext" && c.FuncPkgRel(sc) == pkgRel
		})...)
	}
	for _, ii := range all {
		// blocks per frame, innermost first
		blocks := []*ssa.BasicBlock{ii.Ins.Block()}
		for _, cs := range ii.CallChain() {
			blocks = append(blocks, cs.Block())
		}
		level := -1
		var loop *core.Loop
		for k, b := range blocks {
			if l := edgeLoopOf(b); l != nil {
				level, loop = k, l
				break
			}
		}
		if level < 0 {
			continue
		}
		n++
		for _, cond := range ii.ControlConds() {
			k := ii.Depth() - cond.Depth()
			cb := cond.Ins.Block()
			if k > level || (k == level && (!loop.Body[cb] || isHeader(cb))) {
				continue
			}
			if k < level && isHeader(cb) {
				continue
			}
			if allowed(cond) {
				continue
			}
			pos := cond.Ins.(*ssa.If).Cond.Pos()
			for _, x := range cb.Instrs {
				if !pos.IsValid() && x.Pos().IsValid() {
					pos = x.Pos()
				}
			}
			bad = append(bad, c.Pos(pos))
		}
	}
	if n < floor {
		r.Fail("infra.anchor-unresolved", rule+"|"+pkgRel+"."+fnName+"|edge-loops", c.Pos(fn.Pos()), fmt.Sprintf("expected at least %d addNext calls inside loops over Out()/In(), found %d", floor, n))
		return
	}
	sort.Strings(bad)
	bad = dedupStrings(bad)
	r.Check(len(bad) == 0, rule, pkgRel+"."+fnName+"|all-edges-followed", c.Pos(fn.Pos()),
		fmt.Sprintf("all %d addNext calls inside loops over the edges of a node are unconditional within the iteration (tuple-index filter and nil tests aside)", n),
		"inside a loop over the edges of a node, handing the edge to addNext depends on a condition that is neither the tuple-index filter nor a nil test: "+strings.Join(bad, ", ")+" - edges to the nodes the condition rejects are not followed, and the flow through them is silently lost")
}

func dedupStrings(xs []string) []string {
	var res []string
	for i, x := range xs {
		if i == 0 || x != xs[i-1] {
			res = append(res, x)
		}
	}
	return res
}
