package core

import (
	"go/types"
	"sort"
	"strings"

	"golang.org/x/tools/go/ssa"
)

// RepoGraph is a light call graph restricted to repository code: static
// callees, invoke calls resolved to every repository type implementing the
// interface (CHA restricted to the repository), closures created in a function
// (counted as called by it), and functions whose value is taken in a function
// (address-taken callees). Calls into non-repository code are kept as leaf
// edges so rules can look one level into library methods.
type RepoGraph struct {
	c       *Ctx
	Callees map[*ssa.Function][]*ssa.Function
	Callers map[*ssa.Function][]*ssa.Function
	// repoMethodImpls caches interface method -> implementations
	impls map[*types.Func][]*ssa.Function
}

// RepoGraph builds (once) the repository call graph.
func (c *Ctx) RepoGraph() *RepoGraph {
	if c.repoGraph != nil {
		return c.repoGraph
	}
	g := &RepoGraph{c: c, Callees: map[*ssa.Function][]*ssa.Function{}, Callers: map[*ssa.Function][]*ssa.Function{}, impls: map[*types.Func][]*ssa.Function{}}
	// all named repo types
	var repoTypes []types.Type
	for _, p := range c.RepoPkgs() {
		sc := p.Types.Scope()
		for _, n := range sc.Names() {
			if tn, ok := sc.Lookup(n).(*types.TypeName); ok && !tn.IsAlias() {
				if nt, ok := tn.Type().(*types.Named); ok && nt.TypeParams().Len() == 0 && !types.IsInterface(nt) {
					repoTypes = append(repoTypes, nt, types.NewPointer(nt))
				}
			}
		}
	}
	resolveInvoke := func(m *types.Func, recv types.Type) []*ssa.Function {
		if r, ok := g.impls[m]; ok {
			return r
		}
		var res []*ssa.Function
		iface, _ := recv.Underlying().(*types.Interface)
		for _, t := range repoTypes {
			if iface != nil && !types.Implements(t, iface) {
				continue
			}
			sel := c.Prog.MethodSets.MethodSet(t).Lookup(m.Pkg(), m.Name())
			if sel == nil {
				continue
			}
			if fn := c.Prog.MethodValue(sel); fn != nil {
				res = append(res, fn)
			}
		}
		g.impls[m] = res
		return res
	}
	add := func(from, to *ssa.Function) {
		if to == nil {
			return
		}
		g.Callees[from] = append(g.Callees[from], to)
		g.Callers[to] = append(g.Callers[to], from)
	}
	for fn := range c.AllFunctions() {
		if !c.IsRepoFunc(fn) || fn.Blocks == nil {
			continue
		}
		for _, an := range fn.AnonFuncs {
			add(fn, an)
		}
		for _, b := range fn.Blocks {
			for _, ins := range b.Instrs {
				if ci, ok := ins.(ssa.CallInstruction); ok {
					cc := ci.Common()
					if cc.IsInvoke() {
						for _, t := range resolveInvoke(cc.Method, cc.Value.Type()) {
							add(fn, t)
						}
					} else if sc := cc.StaticCallee(); sc != nil {
						add(fn, sc)
					}
				}
				// address-taken functions
				var rands []*ssa.Value
				for _, op := range ins.Operands(rands) {
					if f, ok := (*op).(*ssa.Function); ok {
						if ci, isCall := ins.(ssa.CallInstruction); isCall && ci.Common().Value == f {
							continue
						}
						add(fn, f)
					}
				}
			}
		}
	}
	for k := range g.Callees {
		g.Callees[k] = dedupFuncs(g.Callees[k])
	}
	for k := range g.Callers {
		g.Callers[k] = dedupFuncs(g.Callers[k])
	}
	c.repoGraph = g
	return g
}

func dedupFuncs(fs []*ssa.Function) []*ssa.Function {
	seen := map[*ssa.Function]bool{}
	var res []*ssa.Function
	for _, f := range fs {
		if !seen[f] {
			seen[f] = true
			res = append(res, f)
		}
	}
	sort.Slice(res, func(i, j int) bool { return res[i].String() < res[j].String() })
	return res
}

// Cone returns the repository functions reachable from roots (including the
// roots); non-repository callees are not expanded. If withLib is true the
// directly called non-repository functions are included as leaves.
func (g *RepoGraph) Cone(withLib bool, roots ...*ssa.Function) map[*ssa.Function]bool {
	seen := map[*ssa.Function]bool{}
	var stack []*ssa.Function
	for _, r := range roots {
		if r != nil && !seen[r] {
			seen[r] = true
			stack = append(stack, r)
		}
	}
	for len(stack) > 0 {
		f := stack[len(stack)-1]
		stack = stack[:len(stack)-1]
		for _, t := range g.Callees[f] {
			if seen[t] {
				continue
			}
			if g.c.IsRepoFunc(t) {
				seen[t] = true
				stack = append(stack, t)
			} else if withLib {
				seen[t] = true
			}
		}
	}
	return seen
}

// IsSSAType reports whether t is (a pointer to) the named type name of go/ssa.
func IsSSAType(t types.Type, name string) bool {
	t = types.Unalias(t)
	if p, ok := t.(*types.Pointer); ok {
		t = types.Unalias(p.Elem())
	}
	n, ok := t.(*types.Named)
	return ok && n.Obj().Pkg() != nil && n.Obj().Pkg().Path() == SSAPath && (name == "" || n.Obj().Name() == name)
}

// SSATypeName returns the go/ssa type name of t ("" if not an ssa type).
func SSATypeName(t types.Type) string {
	t = types.Unalias(t)
	if p, ok := t.(*types.Pointer); ok {
		t = types.Unalias(p.Elem())
	}
	n, ok := t.(*types.Named)
	if ok && n.Obj().Pkg() != nil && n.Obj().Pkg().Path() == SSAPath {
		return n.Obj().Name()
	}
	return ""
}

// FieldReads returns the set "T.F" of fields of go/ssa struct types read
// (FieldAddr/Field) anywhere in the given functions.
func FieldReads(fns map[*ssa.Function]bool) map[string][]*ssa.Function {
	res := map[string][]*ssa.Function{}
	for fn := range fns {
		for _, b := range fn.Blocks {
			for _, ins := range b.Instrs {
				var x ssa.Value
				var idx int
				switch v := ins.(type) {
				case *ssa.FieldAddr:
					x, idx = v.X, v.Field
				case *ssa.Field:
					x, idx = v.X, v.Field
				default:
					continue
				}
				tn := SSATypeName(x.Type())
				if tn == "" {
					continue
				}
				t := types.Unalias(x.Type())
				if p, ok := t.(*types.Pointer); ok {
					t = p.Elem()
				}
				st, ok := t.Underlying().(*types.Struct)
				if !ok {
					continue
				}
				key := tn + "." + st.Field(idx).Name()
				res[key] = append(res[key], fn)
			}
		}
	}
	return res
}

// ShortFunc strips the module path from a function's name.
func ShortFunc(fn *ssa.Function) string {
	return strings.ReplaceAll(fn.String(), Module+"/", "")
}
