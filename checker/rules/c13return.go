package rules

import (
	"fmt"

	"golang.org/x/tools/go/ssa"

	"verif/checker/core"
)

// c13return (R13.return): with use-escape-analysis, every graph node the
// tainted data reaches must have the instructions it marks escape-checked.
// Nodes reached as the `next` node of addNext are checked there
// (R13.check). When the traversal returns from a callee into a call site
// (the *ReturnValNode arm of taint.Visitor.Visit), the data reaches the CALL
// node of the caller: its marks include the instruction that consumes the
// returned value (`b.val = fetch()`). Only the successors of the call node
// (callSite.Out()) are handed to addNext; the call node itself must be checked
// in the arm - a call of checkEscape / manageEscapeContexts whose node operand
// is the call site whose Out() is iterated.
func c13return(c *core.Ctx, r *core.Report) {
	fn := c.Func("analysis/taint", "Visitor.Visit")
	if fn == nil {
		r.Fail("infra.anchor-unresolved", "R13.return|analysis/taint.Visitor.Visit", "", "not found")
		return
	}
	entries, _ := core.TypeCaseEntryOf(fn, "*dataflow.ReturnValNode")
	if len(entries) == 0 {
		r.Fail("infra.anchor-unresolved", "R13.return|analysis/taint.Visitor.Visit|ReturnValNode-arm", c.Pos(fn.Pos()), "arm not found")
		return
	}
	entry := entries[0]
	region := map[*ssa.BasicBlock]bool{}
	for _, b := range fn.Blocks {
		if entry.Dominates(b) {
			region[b] = true
		}
	}
	isCallNodeMethod := func(call *ssa.Call, name string) bool {
		sc := call.Call.StaticCallee()
		return sc != nil && sc.Name() == name && sc.Signature.Recv() != nil && core.ShortType(sc.Signature.Recv().Type()) == "*dataflow.CallNode"
	}
	// call sites whose Out() is iterated, and nodes handed to the escape check, in the arm (helpers inlined)
	var sites []ssa.Value
	checked := map[ssa.Value]bool{}
	for _, ii := range core.InlinedInstrsFrom(c, fn, region, c.Depth(2), func(ins ssa.Instruction) bool {
		_, ok := ins.(*ssa.Call)
		return ok
	}) {
		call := ii.Ins.(*ssa.Call)
		if isCallNodeMethod(call, "Out") && c.FuncPkgRel(call.Parent()) == "analysis/taint" {
			sites = append(sites, call.Call.Args[0])
		}
		if sc := call.Call.StaticCallee(); sc != nil && (sc.Name() == "checkEscape" || sc.Name() == "manageEscapeContexts") {
			for _, a := range call.Call.Args {
				checked[a] = true
				if mi, ok := a.(*ssa.MakeInterface); ok {
					checked[mi.X] = true
				}
			}
		}
	}
	if len(sites) == 0 {
		r.Fail("infra.anchor-unresolved", "R13.return|analysis/taint.Visitor.Visit|ReturnValNode-arm|call-sites", c.Pos(entry.Instrs[0].Pos()), "no call site whose Out() is iterated in the arm")
		return
	}
	n := 0
	for _, s := range sites {
		if checked[s] {
			n++
		}
	}
	r.Check(n == len(sites), "R13.return", "analysis/taint.Visitor.Visit|ReturnValNode-arm|call-site-marks-checked", c.Pos(entry.Instrs[0].Pos()),
		"the call node the traversal returns into is escape-checked",
		fmt.Sprintf("the traversal returns into %d call site(s) and iterates their Out() edges, but %d of them are never handed to the escape check themselves: the instruction consuming the returned value (`b.val = fetch()`, where fetch returns source data and b is already shared with another goroutine) is not checked, and the tool prints neither a flow nor an escape", len(sites), len(sites)-n))
}
