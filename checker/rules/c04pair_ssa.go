package rules

import (
	"fmt"
	"go/constant"
	"go/token"
	"go/types"
	"sort"
	"strings"
	"unicode"

	"golang.org/x/tools/go/ssa"

	"verif/checker/core"
)

func lastComp(p string) string {
	if i := strings.LastIndex(p, "."); i >= 0 {
		return p[i+1:]
	}
	return p
}

// regexSlotField: "valueMatchRegex" -> "ValueMatch".
func regexSlotField(slot string) string {
	s := strings.TrimSuffix(slot, "Regex")
	if s == "" {
		return ""
	}
	rs := []rune(s)
	rs[0] = unicode.ToUpper(rs[0])
	return string(rs)
}

func isEmptyStringConst(v ssa.Value) bool {
	k, ok := v.(*ssa.Const)
	return ok && k.Value != nil && k.Value.Kind() == constant.String && constant.StringVal(k.Value) == ""
}

// emptinessAlternative: the specification field whose emptiness is the
// alternative of the boolean test v (`v || F == ""`): the If on v (in v's
// block) has a false successor whose first comparison is `x == ""`.
func emptinessAlternative(ii core.InlinedInstr, v ssa.Value) (field string, root *ssa.Parameter, ok bool) {
	if f, rt, ok := emptinessAlternativeForward(ii, v); ok {
		return f, rt, ok
	}
	return emptinessGuard(ii)
}

// emptinessGuard is the other spelling of the same alternative, `F == "" || v`:
// the innermost emptiness test the instruction is control dependent on, with
// the instruction (or the call leading to it, when it sits in a helper) on the
// NON-empty side of that test.
func emptinessGuard(ii core.InlinedInstr) (field string, root *ssa.Parameter, ok bool) {
	chain := ii.CallChain()
	for _, cond := range ii.ControlConds() {
		iff := cond.Ins.(*ssa.If)
		bo, isBo := iff.Cond.(*ssa.BinOp)
		if !isBo || (bo.Op != token.EQL && bo.Op != token.NEQ) {
			continue
		}
		var other ssa.Value
		if isEmptyStringConst(bo.Y) {
			other = bo.X
		} else if isEmptyStringConst(bo.X) {
			other = bo.Y
		}
		if other == nil {
			continue
		}
		site := ii.Ins.Block()
		if k := ii.Depth() - cond.Depth(); k > 0 && k-1 < len(chain) {
			site = chain[k-1].Block()
		}
		nonEmpty := iff.Block().Succs[1]
		if bo.Op == token.NEQ {
			nonEmpty = iff.Block().Succs[0]
		}
		if nonEmpty != site && !nonEmpty.Dominates(site) {
			return "", nil, false
		}
		sl := cond.Slice(other)
		var rt *ssa.Parameter
		for p := range sl.Roots {
			rt = p
		}
		return lastComp(cond.PathOf(other)), rt, len(sl.Roots) == 1
	}
	return "", nil, false
}

func emptinessAlternativeForward(ii core.InlinedInstr, v ssa.Value) (field string, root *ssa.Parameter, ok bool) {
	ins, isIns := v.(ssa.Instruction)
	if !isIns {
		return "", nil, false
	}
	b := ins.Block()
	iff, isIf := b.Instrs[len(b.Instrs)-1].(*ssa.If)
	if !isIf || iff.Cond != v {
		return "", nil, false
	}
	alt := b.Succs[1]
	for hops := 0; hops < 2 && alt != nil; hops++ {
		for _, x := range alt.Instrs {
			bo, isBo := x.(*ssa.BinOp)
			if !isBo || bo.Op != token.EQL {
				continue
			}
			var other ssa.Value
			if isEmptyStringConst(bo.Y) {
				other = bo.X
			} else if isEmptyStringConst(bo.X) {
				other = bo.Y
			}
			if other == nil {
				continue
			}
			sl := ii.Slice(other)
			var rt *ssa.Parameter
			for p := range sl.Roots {
				rt = p
			}
			return lastComp(ii.PathOf(other)), rt, len(sl.Roots) == 1
		}
		if len(alt.Succs) == 1 {
			alt = alt.Succs[0]
		} else {
			alt = nil
		}
	}
	return "", nil, false
}

func singleRoot(ii core.InlinedInstr, v ssa.Value) *ssa.Parameter {
	sl := ii.Slice(v)
	if len(sl.Roots) != 1 {
		return nil
	}
	for p := range sl.Roots {
		return p
	}
	return nil
}

// c04pairSSA (R04.pair), on SSA with helpers inlined in their calling
// context: every regexp MatchString in the cone of equalOnNonEmptyFields
// applies the regex slot of specification field F (from the reference
// identifier) to candidate field F (from the receiver) and its alternative is
// the emptiness of specification field F; every string equality between a
// candidate field and a specification field compares like-named fields with the
// same emptiness alternative; Kind is compared by equality in both arms; every
// regex slot of codeIdentifierRegex is used.
func c04pairSSA(c *core.Ctx, r *core.Report) {
	fn := c.Func("analysis/config", "CodeIdentifier.equalOnNonEmptyFields")
	if fn == nil {
		r.Fail("infra.anchor-unresolved", "R04.pair|analysis/config.CodeIdentifier.equalOnNonEmptyFields", "", "not found")
		return
	}
	r.Analysed("analysis/config.CodeIdentifier.equalOnNonEmptyFields")
	cand, spec := fn.Params[0], fn.Params[1]
	// the regex arm: blocks dominated by the true successor of `computedRegexs != nil`
	var regexArm *ssa.BasicBlock
	for _, b := range fn.Blocks {
		iff, ok := b.Instrs[len(b.Instrs)-1].(*ssa.If)
		if !ok {
			continue
		}
		bo, ok := iff.Cond.(*ssa.BinOp)
		if !ok || (bo.Op != token.NEQ && bo.Op != token.EQL) {
			continue
		}
		rp := core.NewReadPaths(c, bo.X)
		if rp.HasSuffix("computedRegexs") {
			if bo.Op == token.NEQ {
				regexArm = b.Succs[0]
			} else {
				regexArm = b.Succs[1]
			}
		}
	}
	inRegexArm := func(ii core.InlinedInstr, rootBlock *ssa.BasicBlock) bool {
		return regexArm != nil && regexArm.Dominates(rootBlock)
	}
	rootBlockOf := func(ii core.InlinedInstr) *ssa.BasicBlock { return ii.RootBlock() }
	slots := map[string]bool{}
	if tn, ok := c.Pkg("analysis/config").Types.Scope().Lookup("codeIdentifierRegex").(*types.TypeName); ok {
		if st, ok := tn.Type().Underlying().(*types.Struct); ok {
			for i := 0; i < st.NumFields(); i++ {
				slots[st.Field(i).Name()] = false
			}
		}
	}
	if len(slots) < 6 {
		r.Fail("infra.anchor-unresolved", "R04.pair|codeIdentifierRegex", "", "regex slot struct not found")
		return
	}
	fail := func(arm, field, pos, msg string) {
		r.Fail("R04.pair", "analysis/config.equalOnNonEmptyFields|"+arm+"|"+field, pos, msg)
	}
	done := map[string]bool{}
	nMatch, nEq := 0, 0
	for _, ii := range core.InlinedInstrs(c, fn, c.Depth(2), func(ins ssa.Instruction) bool {
		switch x := ins.(type) {
		case *ssa.Call:
			sc := x.Call.StaticCallee()
			return sc != nil && sc.Name() == "MatchString" && sc.Signature.Recv() != nil && strings.HasSuffix(sc.Signature.Recv().Type().String(), "regexp.Regexp")
		case *ssa.BinOp:
			if x.Op != token.EQL || isEmptyStringConst(x.X) || isEmptyStringConst(x.Y) {
				return false
			}
			b, ok := types.Unalias(x.X.Type()).Underlying().(*types.Basic)
			return ok && b.Kind() == types.String
		}
		return false
	}) {
		pos := c.Pos(ii.Ins.Pos())
		switch x := ii.Ins.(type) {
		case *ssa.Call:
			nMatch++
			slot := lastComp(ii.PathOf(x.Call.Args[0]))
			f := lastComp(ii.PathOf(x.Call.Args[1]))
			want := regexSlotField(slot)
			if _, isSlot := slots[slot]; isSlot {
				slots[slot] = true
			}
			key := want
			if key == "" {
				key = fmt.Sprintf("unrecognised#%d", nMatch)
			}
			ef, er, eok := emptinessAlternative(ii, x)
			switch {
			case want == "" || singleRoot(ii, x.Call.Args[0]) != spec:
				fail("regex", key, pos, "the regex applied is not a slot of the specification's compiled regexes (undecided)")
			case f != want || singleRoot(ii, x.Call.Args[1]) != cand:
				fail("regex", key, pos, fmt.Sprintf("the compiled regex of specification field %s is matched against candidate field %s: the %s pattern of a specification selects on the wrong field", want, f, want))
			case !eok || ef != want || er != spec:
				fail("regex", key, pos, fmt.Sprintf("the alternative of the %s match is not the emptiness of specification field %s (found %q): an empty %s field does not mean 'any', or another field's emptiness disables this conjunct", want, want, ef, want))
			default:
				if !done["regex|"+key] {
					done["regex|"+key] = true
					r.OK("R04.pair", "analysis/config.equalOnNonEmptyFields|regex|"+key, pos, "regex slot, candidate field and emptiness test all refer to "+want)
				}
			}
		case *ssa.BinOp:
			fx, fy := lastComp(ii.PathOf(x.X)), lastComp(ii.PathOf(x.Y))
			rx, ry := singleRoot(ii, x.X), singleRoot(ii, x.Y)
			if !((rx == cand && ry == spec) || (rx == spec && ry == cand)) {
				continue // not a candidate-vs-specification comparison
			}
			nEq++
			arm := "plain"
			if inRegexArm(ii, rootBlockOf(ii)) {
				arm = "regex"
			}
			if fx == "Kind" && fy == "Kind" {
				if !done[arm+"|Kind"] {
					done[arm+"|Kind"] = true
					r.OK("R04.pair", "analysis/config.equalOnNonEmptyFields|"+arm+"|Kind", pos, "Kind compared by equality")
				}
				continue
			}
			ef, er, eok := emptinessAlternative(ii, x)
			key := fx
			switch {
			case fx != fy:
				fail(arm, key, pos, fmt.Sprintf("candidate field %s is compared with specification field %s", fx, fy))
			case !eok || ef != fx || er != spec:
				fail(arm, key, pos, fmt.Sprintf("the alternative of the %s comparison is not the emptiness of specification field %s (found %q)", fx, fx, ef))
			default:
				if !done[arm+"|"+key] {
					done[arm+"|"+key] = true
					r.OK("R04.pair", "analysis/config.equalOnNonEmptyFields|"+arm+"|"+key, pos, "like-named fields compared, alternative is the emptiness of the same specification field")
				}
			}
		}
	}
	var unused []string
	for s, used := range slots {
		if !used {
			unused = append(unused, s)
		}
	}
	sort.Strings(unused)
	for _, s := range unused {
		fail("regex", regexSlotField(s), c.Pos(fn.Pos()), "the compiled regex "+s+" is never matched: the "+regexSlotField(s)+" pattern of a specification is ignored")
	}
	for _, s := range sortedKeys(slots) {
		f := regexSlotField(s)
		if !done["plain|"+f] && len(unused) == 0 {
			fail("plain", f, c.Pos(fn.Pos()), "no comparison of candidate and specification field "+f+" in the arm without compiled regexes")
		}
	}
	for _, arm := range []string{"regex", "plain"} {
		if !done[arm+"|Kind"] {
			fail(arm, "Kind", c.Pos(fn.Pos()), "Kind is not compared by equality in this arm: a specification of one kind selects locations of another")
		}
	}
	r.Floor("R04.pair", 16, "8 string fields x 2 arms + Kind")
}

func sortedKeys(m map[string]bool) []string {
	var ks []string
	for k := range m {
		ks = append(ks, k)
	}
	sort.Strings(ks)
	return ks
}

// c04compileSSA (R04.compile): every slot of codeIdentifierRegex is stored a
// value whose slice calls regexp.Compile on exactly the like-named raw field
// of the identifier (no constant is concatenated: no anchoring).
func c04compileSSA(c *core.Ctx, r *core.Report) {
	fn := c.Func("analysis/config", "compileRegexes")
	if fn == nil {
		r.Fail("infra.anchor-unresolved", "R04.compile|analysis/config.compileRegexes", "", "not found")
		return
	}
	r.Analysed("analysis/config.compileRegexes")
	seen := map[string]bool{}
	for _, ii := range core.InlinedInstrs(c, fn, c.Depth(2), func(ins ssa.Instruction) bool {
		st, ok := ins.(*ssa.Store)
		if !ok {
			return false
		}
		n, _ := core.FieldOf(st.Addr)
		return n != nil && n.Obj().Name() == "codeIdentifierRegex"
	}) {
		st := ii.Ins.(*ssa.Store)
		_, f := core.FieldOf(st.Addr)
		slot := f.Name()
		want := regexSlotField(slot)
		seen[slot] = true
		sl := ii.Slice(st.Val)
		// the argument(s) of regexp.Compile in the slice
		var raw []string
		for p := range sl.Paths {
			lc := lastComp(p)
			if lc != "" && unicode.IsUpper([]rune(lc)[0]) {
				raw = append(raw, lc)
			}
		}
		sort.Strings(raw)
		ok := sl.Calls["Compile"] && len(raw) == 1 && raw[0] == want
		r.Check(ok, "R04.compile", "analysis/config.compileRegexes|"+slot, c.Pos(st.Pos()),
			"slot is filled with regexp.Compile of the like-named raw field",
			fmt.Sprintf("slot %s is not filled with regexp.Compile(%s) (compiled from: %v): the %s pattern of a specification is matched with another field's expression", slot, want, raw, want))
		// no anchoring: the value handed to Compile is not built from string constants
		anchored := false
		for k := range compileArgConsts(ii, st.Val) {
			if k != "" {
				anchored = true
			}
		}
		r.Check(!anchored, "R04.compile", "analysis/config.compileRegexes|slot|"+slot, c.Pos(st.Pos()),
			"the raw expression is compiled as written (unanchored)", "a constant is concatenated to the expression before it is compiled: patterns are documented as unanchored regular expressions")
	}
	r.Floor("R04.compile", 16, "8 compiles + 8 slots")
}

// compileArgConsts: string constants in the slices of the arguments of the
// regexp.Compile calls found in the slice of v.
func compileArgConsts(ii core.InlinedInstr, v ssa.Value) map[string]bool {
	res := map[string]bool{}
	for _, call := range ii.CallsInSlice(v, "Compile") {
		for k := range call.Slice(call.Ins.(*ssa.Call).Call.Args[0]).Consts {
			res[k] = true
		}
	}
	return res
}
