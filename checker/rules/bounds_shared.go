package rules

import (
	"fmt"
	"strings"
	"sync"

	"golang.org/x/tools/go/ssa"

	"verif/checker/core"
)

var (
	boundsControlOnce sync.Once
	boundsControlErr  string
)

func boundsControl() string {
	boundsControlOnce.Do(func() {
		p, err := core.Fixture("bounds")
		if err != nil {
			boundsControlErr = "fixture not loadable: " + err.Error()
			return
		}
		fns := core.FixtureFuncs(p)
		for name, want := range map[string]int{"g.Bad": 1, "g.Good": 0, "Parallel": 0} {
			fn := fns[name]
			if fn == nil {
				boundsControlErr = "fixture function " + name + " missing"
				return
			}
			if got := len(core.ForeignBounds(fn)); got != want {
				boundsControlErr = fmt.Sprintf("fixture %s: %d foreign bounds reported, want %d", name, got, want)
				return
			}
		}
	})
	return boundsControlErr
}

// boundsRule: a value that is used as an index is never range-checked against
// the length of a collection it does not index (`if i > len(m) {return}; m[k][i]`):
// the check then rejects valid positions (or admits invalid ones) and the
// guarded effect is silently dropped. Range loops over a parallel collection are
// exempt. Positive controls from an embedded fixture run on every check.
func boundsRule(c *core.Ctx, r *core.Report, rule string, scope func(fn *ssa.Function, rel string) bool, consequence string) {
	r.Explain(rule + ": no value used as an index is range-checked against the length of a collection it does not index (range loops over a parallel collection exempt); embedded positive controls.")
	if msg := boundsControl(); msg != "" {
		r.Fail("infra.control", rule+"|bounds-fixture", "", "the foreign-bound engine no longer passes its positive controls: "+msg)
		return
	}
	r.OK(rule, "engine|positive-controls", "", "embedded fixture: foreign bound reported, proper bound and range idiom not reported")
	nFn := 0
	for _, fn := range c.RepoFunctions() {
		file := c.Fset.Position(fn.Pos()).Filename
		if strings.HasSuffix(file, "_test.go") || strings.Contains(file, "/testdata/") || !scope(fn, c.FuncPkgRel(fn)) {
			continue
		}
		nFn++
		for i, fb := range core.ForeignBounds(fn) {
			r.Fail(rule, fmt.Sprintf("%s|%s-vs-len(%s)#%d", c.FuncName(fn), core.DescribeValue(fb.Index, 0), core.DescribeValue(fb.LenOf, 0), i+1), c.Pos(fb.Cmp.Pos()),
				fmt.Sprintf("%s indexes %s but is range-checked against len(%s), a different collection: %s", core.DescribeValue(fb.Index, 0), strings.Join(fb.Indexed, ", "), core.DescribeValue(fb.LenOf, 0), consequence))
		}
	}
	r.Extra[rule+"_functions_scanned"] = nFn
	if nFn < 20 {
		r.Fail("infra.floor", rule+"|functions", "", fmt.Sprintf("only %d functions in scope", nFn))
	}
}
