module c04forms
go 1.22
