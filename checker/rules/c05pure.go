package rules

import (
	"fmt"
	"go/token"
	"go/types"
	"os"
	"reflect"
	"sort"
	"strconv"
	"strings"

	"golang.org/x/tools/go/ssa"

	"verif/checker/core"
)

var neutralOptionTags = map[string]bool{"report-coverage": true, "report-paths": true, "report-summaries": true, "report-no-callee-sites": true,
	"reports-dir": true, "coverage-filter": true, "log-level": true, "silence-warn": true}

// result-relevant types: writes to their fields change analysis results
var resultTypes = map[string]bool{}

func init() {
	for _, t := range []string{"AnalyzerState", "InterProceduralFlowGraph", "SummaryGraph", "ParamNode", "FreeVarNode", "CallNode", "CallNodeArg", "ReturnValNode",
		"ClosureNode", "BoundVarNode", "BoundLabelNode", "SyntheticNode", "AccessGlobalNode", "IfNode", "GlobalNode", "IntraAnalysisState", "FlowInformation",
		"AbstractValue", "VisitorNode", "NodeTree", "EdgeInfo", "ConditionInfo", "Mark"} {
		resultTypes["analysis/dataflow."+t] = true
	}
	for _, t := range []string{"Flows", "Visitor", "EscapeInfo"} {
		resultTypes["analysis/taint."+t] = true
	}
	for _, t := range []string{"Visitor"} {
		resultTypes["analysis/backtrace."+t] = true
	}
	for _, t := range []string{"EscapeGraph", "functionAnalysisState", "ProgramAnalysisState", "NodeGroup", "globalNodeGroup"} {
		resultTypes["analysis/escape."+t] = true
	}
	resultTypes["analysis/defers.Results"] = true
	resultTypes["internal/pointer.Config"] = true
	resultTypes["internal/pointer.Result"] = true
}

// fields of result types that only carry output / presentation state
var outputFields = map[string]string{
	"analysis/dataflow.AnalyzerState.Logger":    "logger handle",
	"analysis/taint.Visitor.coverageWriter":     "coverage output writer",
	"analysis/taint.Visitor.alarms":             "de-duplication of warning messages only",
	"analysis/dataflow.SummaryGraph.errors":     "diagnostics shown to the user",
	"analysis/dataflow.VisitorNode.children":    "presentation tree of the traversal (reports only)",
	"analysis/dataflow.AnalyzerState.errors":    "diagnostics",
	"analysis/dataflow.AnalyzerState.numAlarms": "alarm counter (max-alarms, checked by R05.alarms)",
}

func qualNamed(n *types.Named) string {
	if n == nil || n.Obj().Pkg() == nil {
		return ""
	}
	name := n.Obj().Name()
	if o := n.Origin(); o != nil {
		name = o.Obj().Name()
	}
	return strings.TrimPrefix(n.Obj().Pkg().Path(), core.Module+"/") + "." + name
}

type purity struct {
	c            *core.Ctx
	g            *core.RepoGraph
	fns          []*ssa.Function
	srcFields    map[*types.Var]string
	taintedRet   map[*ssa.Function]string
	retParams    map[*ssa.Function]map[int]bool // parameters whose taint (alone) reaches the function's results
	taintedParam map[*ssa.Parameter]string
	taintedCell  map[ssa.Value]string
	directW      map[*ssa.Function]string
	summary      map[*ssa.Function]string
}

// rFieldWrite: does ins write a field of a result-relevant type? returns description.
func (p *purity) rFieldWrite(ins ssa.Instruction) string {
	return p.rFieldWriteF(ins, true)
}

// rFieldWriteF: with skipFresh, the initialisation of a freshly allocated
// object is not counted (it is not shared state yet); a tainted VALUE stored
// into such an object is counted all the same (skipFresh=false), since the
// object is published later.
func (p *purity) rFieldWriteF(ins ssa.Instruction, skipFresh bool) string {
	desc := func(addr ssa.Value) string {
		n, f := core.FieldOf(addr)
		if n == nil {
			return ""
		}
		q := qualNamed(n)
		if !resultTypes[q] {
			return ""
		}
		full := q + "." + f.Name()
		if _, ok := outputFields[full]; ok {
			return ""
		}
		// a freshly allocated object being initialised is not shared state yet
		if fa, ok := addr.(*ssa.FieldAddr); ok && skipFresh {
			if al, ok := fa.X.(*ssa.Alloc); ok && al.Heap {
				return ""
			}
		}
		return full
	}
	switch x := ins.(type) {
	case *ssa.Store:
		return desc(x.Addr)
	case *ssa.MapUpdate:
		if ld, ok := x.Map.(*ssa.UnOp); ok {
			return desc(ld.X)
		}
		if call, ok := x.Map.(*ssa.Call); ok && (isNamedCall(call, "Out") || isNamedCall(call, "In")) {
			return "analysis/dataflow.GraphNode.edges"
		}
	case *ssa.Call:
		if b, ok := x.Call.Value.(*ssa.Builtin); ok && (b.Name() == "delete" || b.Name() == "clear") && len(x.Call.Args) > 0 {
			if ld, ok := x.Call.Args[0].(*ssa.UnOp); ok {
				return desc(ld.X)
			}
		}
	}
	return ""
}

func isNamedCall(call *ssa.Call, name string) bool {
	if call.Call.IsInvoke() {
		return call.Call.Method.Name() == name
	}
	sc := call.Call.StaticCallee()
	return sc != nil && sc.Name() == name
}

func c05pure(c *core.Ctx, r *core.Report) {
	p := &purity{c: c, g: c.RepoGraph(), srcFields: map[*types.Var]string{}, taintedRet: map[*ssa.Function]string{}, retParams: map[*ssa.Function]map[int]bool{}, taintedParam: map[*ssa.Parameter]string{},
		taintedCell: map[ssa.Value]string{}, directW: map[*ssa.Function]string{}, summary: map[*ssa.Function]string{}}
	// ---- sources
	cfgPkg := c.Pkg("analysis/config")
	if cfgPkg == nil {
		r.Fail("infra.anchor-unresolved", "R05.pure|analysis/config", "", "not found")
		return
	}
	for _, name := range cfgPkg.Types.Scope().Names() {
		tn, ok := cfgPkg.Types.Scope().Lookup(name).(*types.TypeName)
		if !ok {
			continue
		}
		st, ok := tn.Type().Underlying().(*types.Struct)
		if !ok {
			continue
		}
		for i := 0; i < st.NumFields(); i++ {
			tag := reflect.StructTag(st.Tag(i)).Get("yaml")
			tag = strings.Split(tag, ",")[0]
			if neutralOptionTags[tag] {
				p.srcFields[st.Field(i)] = "option " + tag
			}
			if name == "LogGroup" {
				p.srcFields[st.Field(i)] = "LogGroup." + st.Field(i).Name()
			}
		}
	}
	nOpt := 0
	for _, d := range p.srcFields {
		if strings.HasPrefix(d, "option ") {
			nOpt++
		}
	}
	if nOpt < len(neutralOptionTags) {
		r.Fail("infra.anchor-unresolved", "R05.pure|options", "", fmt.Sprintf("only %d of %d soundness-neutral option fields found by yaml tag", nOpt, len(neutralOptionTags)))
	}
	for _, fn := range c.RepoFunctions() {
		file := c.Fset.Position(fn.Pos()).Filename
		if strings.HasSuffix(file, "_test.go") || strings.Contains(file, "/testdata/") {
			continue
		}
		rel := c.FuncPkgRel(fn)
		if strings.HasPrefix(rel, "analysis/refactor") || strings.HasPrefix(rel, "cmd/racerg") || strings.HasPrefix(rel, "internal/analysistest") {
			continue
		}
		p.fns = append(p.fns, fn)
	}
	// ---- direct R writes and transitive summaries
	for _, fn := range p.fns {
		for _, b := range fn.Blocks {
			for _, ins := range b.Instrs {
				if d := p.rFieldWrite(ins); d != "" && p.directW[fn] == "" {
					p.directW[fn] = d + " at " + c.Pos(ins.Pos())
				}
			}
		}
		if p.directW[fn] != "" {
			p.summary[fn] = "writes " + p.directW[fn]
		}
	}
	for changed := true; changed; {
		changed = false
		for _, fn := range p.fns {
			if p.summary[fn] != "" {
				continue
			}
			for _, cal := range p.g.Callees[fn] {
				if s := p.summary[cal]; s != "" {
					p.summary[fn] = "calls " + core.ShortFunc(cal) + " which " + trunc(s, 160)
					changed = true
					break
				}
			}
		}
	}
	// ---- taint fixpoint
	tainted := map[*ssa.Function]map[ssa.Value]string{}
	condRegion := map[*ssa.Function]map[*ssa.BasicBlock]string{} // blocks control-dependent on a tainted branch
	for round := 0; round < 12; round++ {
		changed := false
		for _, fn := range p.fns {
			tv := tainted[fn]
			if tv == nil {
				tv = map[ssa.Value]string{}
				tainted[fn] = tv
			}
			before := len(tv)
			for i, prm := range fn.Params {
				if d, ok := p.taintedParam[prm]; ok && tv[prm] == "" {
					// taint that comes in through a parameter is tagged with the parameter's index: whether it
					// reaches the caller again through the result is decided per call site (only call sites
					// that pass a tainted argument get a tainted result)
					tv[prm] = paramTag(i) + untag(d)
				}
			}
			for _, fv := range fn.FreeVars {
				if d, ok := p.taintedCell[fv]; ok && tv[fv] == "" {
					tv[fv] = d
				}
			}
			regions := map[*ssa.BasicBlock]string{}
			var branchRegions []branchRegion
			for inner := true; inner; {
				inner = false
				for _, b := range fn.Blocks {
					for _, ins := range b.Instrs {
						v, isVal := ins.(ssa.Value)
						// sources
						if isVal && tv[v] == "" {
							if _, f := core.FieldOf(v); f != nil {
								if d, ok := p.srcFields[f]; ok {
									tv[v] = d
									inner = true
								}
							}
						}
						// propagation
						if isVal && tv[v] == "" {
							if d := p.propagate(fn, ins, tv); d != "" {
								tv[v] = d
								inner = true
							}
						}
						// implicit flow: phi whose incoming values differ between the edges controlled by one tainted branch
						if phi, ok := ins.(*ssa.Phi); ok && tv[phi] == "" {
							for _, br := range branchRegions {
								// values arriving only through the true side vs only through the false side of the branch
								var tVals, fVals []ssa.Value
								for i, pred := range b.Preds {
									inT := br.side[0][pred] || (pred == br.branch && br.branch.Succs[0] == b)
									inF := br.side[1][pred] || (pred == br.branch && len(br.branch.Succs) > 1 && br.branch.Succs[1] == b)
									if inT && !inF {
										tVals = append(tVals, phi.Edges[i])
									} else if inF && !inT {
										fVals = append(fVals, phi.Edges[i])
									}
								}
								differ := false
								for _, a := range tVals {
									for _, bb := range fVals {
										if !sameExpr(a, bb, 0) {
											differ = true
										}
									}
								}
								if differ {
									tv[phi] = br.why + " (control dependence)"
									inner = true
									break
								}
							}
						}
						// stores of tainted values
						if st, ok := ins.(*ssa.Store); ok && tv[st.Val] != "" {
							switch a := st.Addr.(type) {
							case *ssa.Alloc:
								if p.taintedCell[a] == "" {
									p.taintedCell[a] = untag(tv[st.Val])
									inner, changed = true, true
								}
							case *ssa.FieldAddr:
								if _, f := core.FieldOf(a); f != nil {
									if _, ok := p.srcFields[f]; !ok {
										n, _ := core.FieldOf(a)
										full := qualNamed(n) + "." + f.Name()
										if !resultTypes[qualNamed(n)] || outputFields[full] != "" {
											p.srcFields[f] = untag(tv[st.Val]) + " stored in " + full
											inner, changed = true, true
										}
									}
								}
							}
						}
						// calls: parameter taint, closure bindings
						if ci, ok := ins.(ssa.CallInstruction); ok {
							for _, callee := range p.g.CalleesAt(ins) {
								if !c.IsRepoFunc(callee) || callee.Blocks == nil {
									continue
								}
								off := 0
								if ci.Common().IsInvoke() {
									off = 1
								}
								for i, a := range ci.Common().Args {
									if d := tv[a]; d != "" && i+off < len(callee.Params) {
										prm := callee.Params[i+off]
										if p.taintedParam[prm] == "" {
											p.taintedParam[prm] = d
											changed = true
										}
									}
								}
							}
						}
						if mc, ok := ins.(*ssa.MakeClosure); ok {
							cf := mc.Fn.(*ssa.Function)
							for i, bnd := range mc.Bindings {
								d := tv[bnd]
								if d == "" {
									d = p.taintedCell[bnd]
								}
								if d != "" && p.taintedCell[cf.FreeVars[i]] == "" {
									p.taintedCell[cf.FreeVars[i]] = d
									changed = true
								}
							}
						}
						// returns
						if ret, ok := ins.(*ssa.Return); ok {
							note := func(d string) {
								if i, isParam := taggedParam(d); isParam {
									if p.retParams[fn] == nil {
										p.retParams[fn] = map[int]bool{}
									}
									if !p.retParams[fn][i] {
										p.retParams[fn][i] = true
										changed = true
									}
									return
								}
								if p.taintedRet[fn] == "" {
									p.taintedRet[fn] = d
									changed = true
								}
							}
							for _, res := range ret.Results {
								if d := tv[res]; d != "" {
									note(d)
								}
							}
							if d, ok := regions[b]; ok && len(ret.Results) > 0 && controlTaintableResult(fn) {
								// which return executes depends on a source
								if _, isParam := taggedParam(d); isParam {
									note(d)
								} else {
									note(d + " (control dependence)")
								}
							}
						}
					}
				}
				// recompute controlled regions
				nr, nbr := p.regions(fn, tv)
				if len(nr) != len(regions) {
					inner = true
				}
				regions, branchRegions = nr, nbr
			}
			condRegion[fn] = regions
			if len(tv) != before {
				changed = true
			}
		}
		if !changed {
			break
		}
	}
	// ---- obligations: every controlled region must be R-pure
	nBranches, nSources := 0, 0
	type viol struct{ key, pos, msg string }
	var viols []viol
	seenKey := map[string]int{}
	for _, fn := range p.fns {
		tv := tainted[fn]
		for v := range tv {
			if _, f := core.FieldOf(v); f != nil {
				if _, ok := p.srcFields[f]; ok {
					nSources++
				}
			}
		}
		regions := condRegion[fn]
		if len(regions) == 0 {
			continue
		}
		name := c.FuncName(fn)
		r.Analysed(name)
		// count branches
		for _, b := range fn.Blocks {
			if iff, ok := b.Instrs[len(b.Instrs)-1].(*ssa.If); ok && tv[iff.Cond] != "" {
				nBranches++
			}
		}
		bad := ""
		badPos := ""
		if os.Getenv("PURE_DEBUG") != "" && strings.Contains(name, os.Getenv("PURE_DEBUG")) {
			for _, b := range fn.Blocks {
				if iff, ok := b.Instrs[len(b.Instrs)-1].(*ssa.If); ok && tv[iff.Cond] != "" {
					fmt.Printf("DEBUG %s: tainted branch in block %d (%s) cond=%s why=%s\n", name, b.Index, b.Comment, core.DescribeValue(iff.Cond, 0), tv[iff.Cond])
				}
			}
			for v, why := range tv {
				fmt.Printf("DEBUG %s: tainted %s = %s : %s\n", name, v.Name(), trunc(v.String(), 80), why)
			}
			for b, why := range regions {
				fmt.Printf("DEBUG %s: region block %d (%s): %s\n", name, b.Index, b.Comment, why)
			}
		}
		for b, why := range regions {
			for _, ins := range b.Instrs {
				if d := p.rFieldWrite(ins); d != "" {
					bad = fmt.Sprintf("writes result-relevant field %s under a branch on %s", d, untag(why))
					badPos = c.Pos(ins.Pos())
				}
				for _, callee := range p.g.CalleesAt(ins) {
					if s := p.summary[callee]; s != "" && c.IsRepoFunc(callee) {
						bad = fmt.Sprintf("calls %s under a branch on %s; it %s", core.ShortFunc(callee), untag(why), trunc(s, 200))
						badPos = c.Pos(ins.Pos())
					}
				}
				if mc, ok := ins.(*ssa.MakeClosure); ok {
					if s := p.summary[mc.Fn.(*ssa.Function)]; s != "" {
						bad = fmt.Sprintf("creates closure %s under a branch on %s; it %s", core.ShortFunc(mc.Fn.(*ssa.Function)), untag(why), trunc(s, 200))
						badPos = c.Pos(ins.Pos())
					}
				}
			}
		}
		key := name + "|regions"
		seenKey[key]++
		if bad != "" {
			viols = append(viols, viol{key, badPos, bad})
		} else {
			r.OK("R05.pure", key, c.Pos(fn.Pos()), fmt.Sprintf("%d block(s) controlled by report/log options contain no write to result-relevant state and no call that can reach one", len(regions)))
		}
	}
	sort.Slice(viols, func(i, j int) bool { return viols[i].key < viols[j].key })
	for _, v := range viols {
		r.Fail("R05.pure", v.key, v.pos, "a soundness-neutral option influences analysis results: "+v.msg)
	}
	// tainted values stored into result-relevant fields
	for _, fn := range p.fns {
		tv := tainted[fn]
		n := 0
		for _, b := range fn.Blocks {
			for _, ins := range b.Instrs {
				var val ssa.Value
				switch x := ins.(type) {
				case *ssa.Store:
					val = x.Val
				case *ssa.MapUpdate:
					val = x.Value
				}
				if val == nil || tv[val] == "" {
					continue
				}
				if os.Getenv("PURE_DEBUG") != "" && strings.Contains(c.FuncName(fn), os.Getenv("PURE_DEBUG")) {
					fmt.Printf("DEBUG store of tainted %s at %s -> %q\n", val.Name(), c.Pos(ins.Pos()), p.rFieldWriteF(ins, false))
				}
				if d := p.rFieldWriteF(ins, false); d != "" {
					n++
					r.Fail("R05.pure", fmt.Sprintf("%s|store#%d", c.FuncName(fn), n), c.Pos(ins.Pos()), fmt.Sprintf("a value derived from %s is stored in result-relevant field %s", untag(tv[val]), d))
				}
			}
		}
	}
	r.Extra["pure_source_read_sites"] = nSources
	r.Extra["pure_option_controlled_branches"] = nBranches
	r.Extra["pure_functions_with_R_write_summary"] = len(p.summary)
	r.Floor("R05.pure", 8, "~10 functions with option-controlled regions measured")
	if nSources < 15 {
		r.Fail("infra.floor", "R05.pure|sources", "", fmt.Sprintf("only %d source read sites found (expected about 30)", nSources))
	}
}

func trunc(s string, n int) string {
	if len(s) > n {
		return s[:n] + "..."
	}
	return s
}

// propagate: data dependence of an instruction's value on tainted operands.
func (p *purity) propagate(fn *ssa.Function, ins ssa.Instruction, tv map[ssa.Value]string) string {
	switch x := ins.(type) {
	case *ssa.UnOp:
		if d := tv[x.X]; d != "" {
			return d
		}
		if x.Op == token.MUL {
			if d := p.taintedCell[x.X]; d != "" {
				return d
			}
		}
	case *ssa.BinOp:
		if d := tv[x.X]; d != "" {
			return d
		}
		return tv[x.Y]
	case *ssa.Phi:
		for _, e := range x.Edges {
			if d := tv[e]; d != "" {
				return d
			}
		}
	case *ssa.Convert:
		return tv[x.X]
	case *ssa.ChangeType:
		return tv[x.X]
	case *ssa.ChangeInterface:
		return tv[x.X]
	case *ssa.MakeInterface:
		return tv[x.X]
	case *ssa.TypeAssert:
		return tv[x.X]
	case *ssa.Extract:
		return tv[x.Tuple]
	case *ssa.Slice:
		return tv[x.X]
	case *ssa.Index:
		return tv[x.X]
	case *ssa.Lookup:
		return tv[x.X]
	case *ssa.Field:
		return tv[x.X]
	case *ssa.FieldAddr:
		return "" // address of a field of a tainted pointer is not itself option-derived data
	case *ssa.Call:
		// results of functions whose return depends on a source
		for _, callee := range p.g.CalleesAt(ins) {
			if d := p.taintedRet[callee]; d != "" {
				return d + " via " + callee.Name() + "()"
			}
			// taint passed in through an argument comes back through the result
			off := 0
			if x.Call.IsInvoke() {
				off = 1
			}
			for i := range p.retParams[callee] {
				if i-off >= 0 && i-off < len(x.Call.Args) {
					if d := tv[x.Call.Args[i-off]]; d != "" {
						return d + " via " + callee.Name() + "()"
					}
				}
				if off == 1 && i == 0 {
					if d := tv[x.Call.Value]; d != "" {
						return d + " via " + callee.Name() + "()"
					}
				}
			}
		}
		// library functions: result depends on tainted arguments (strings.Contains(filter, ..), regexp match, ...)
		if sc := x.Call.StaticCallee(); (sc != nil && !p.c.IsRepoFunc(sc)) || (sc == nil && !x.Call.IsInvoke()) {
			for _, a := range x.Call.Args {
				if d := tv[a]; d != "" {
					return d
				}
			}
		}
		if x.Call.IsInvoke() && len(p.g.CalleesAt(ins)) == 0 {
			if d := tv[x.Call.Value]; d != "" {
				return d
			}
			for _, a := range x.Call.Args {
				if d := tv[a]; d != "" {
					return d
				}
			}
		}
	}
	return ""
}

// regions: blocks whose execution depends on a branch with tainted condition:
// blocks reachable from a successor of the branch without passing through the
// branch's immediate post-dominator; if there is none (a side returns), every
// block reachable from the successors.
type branchRegion struct {
	branch *ssa.BasicBlock
	blocks map[*ssa.BasicBlock]bool
	side   [2]map[*ssa.BasicBlock]bool // blocks reachable from the true / false successor before the join
	why    string
}

func (p *purity) regions(fn *ssa.Function, tv map[ssa.Value]string) (map[*ssa.BasicBlock]string, []branchRegion) {
	res := map[*ssa.BasicBlock]string{}
	var brs []branchRegion
	var pd [][]bool
	for _, b := range fn.Blocks {
		iff, ok := b.Instrs[len(b.Instrs)-1].(*ssa.If)
		if !ok || tv[iff.Cond] == "" {
			continue
		}
		if pd == nil {
			pd = core.PostDom(fn)
		}
		// immediate post-dominator: the post-dominator (other than b) that is post-dominated by all others
		var ipdom *ssa.BasicBlock
		for j, isPD := range pd[b.Index] {
			if !isPD || j == b.Index {
				continue
			}
			cand := fn.Blocks[j]
			best := true
			for k, isPD2 := range pd[b.Index] {
				if isPD2 && k != b.Index && k != j && !pd[j][k] {
					best = false
				}
			}
			if best {
				ipdom = cand
			}
		}
		seen := map[*ssa.BasicBlock]bool{}
		st := append([]*ssa.BasicBlock{}, b.Succs...)
		for len(st) > 0 {
			x := st[len(st)-1]
			st = st[:len(st)-1]
			if seen[x] || x == ipdom || x == b {
				continue
			}
			seen[x] = true
			if _, ok := res[x]; !ok {
				res[x] = tv[iff.Cond]
			}
			st = append(st, x.Succs...)
		}
		var side [2]map[*ssa.BasicBlock]bool
		for k := 0; k < 2 && k < len(b.Succs); k++ {
			side[k] = map[*ssa.BasicBlock]bool{}
			st2 := []*ssa.BasicBlock{b.Succs[k]}
			for len(st2) > 0 {
				x := st2[len(st2)-1]
				st2 = st2[:len(st2)-1]
				if side[k][x] || x == ipdom || x == b {
					continue
				}
				side[k][x] = true
				st2 = append(st2, x.Succs...)
			}
		}
		brs = append(brs, branchRegion{b, seen, side, tv[iff.Cond]})
	}
	return res, brs
}

// controlTaintableResult: a function's result is considered to carry an
// option through control dependence only when it is a plain value (bool, int,
// string) or an output handle (*os.File, io.Writer ...). Configuration loaders
// returning (*Config, error) fail with an error when a report directory cannot
// be created; that error path is not a change of verdict.
func controlTaintableResult(fn *ssa.Function) bool {
	res := fn.Signature.Results()
	for i := 0; i < res.Len(); i++ {
		t := types.Unalias(res.At(i).Type())
		if _, ok := t.Underlying().(*types.Basic); ok {
			return true
		}
		if n, ok := derefNamed(t); ok && n.Obj().Pkg() != nil {
			switch n.Obj().Pkg().Path() {
			case "os", "io", "bufio":
				return true
			}
		}
	}
	return false
}

// paramTag / taggedParam / untag: taint descriptions that entered a function
// through its i-th parameter carry an invisible tag.
func paramTag(i int) string { return "\x01" + strconv.Itoa(i) + "\x01" }

func taggedParam(d string) (int, bool) {
	if !strings.HasPrefix(d, "\x01") {
		return 0, false
	}
	rest := d[1:]
	j := strings.Index(rest, "\x01")
	if j < 0 {
		return 0, false
	}
	i, err := strconv.Atoi(rest[:j])
	return i, err == nil
}

func untag(d string) string {
	for strings.HasPrefix(d, "\x01") {
		rest := d[1:]
		j := strings.Index(rest, "\x01")
		if j < 0 {
			break
		}
		d = rest[j+1:]
	}
	return d
}
