package core

import (
	"embed"
	"fmt"
	"go/types"
	"os"
	"path/filepath"

	"golang.org/x/tools/go/packages"
	"golang.org/x/tools/go/ssa"
	"golang.org/x/tools/go/ssa/ssautil"
)

//go:embed fixtures/*.go.txt
var fixtureFS embed.FS

// Fixture type-checks and SSA-builds one of the embedded positive-control
// sources (core/fixtures/<name>.go.txt) in a scratch directory and returns its
// SSA package. The engines are run on it on every check so that a rule whose
// expected count on the repository is zero is still shown to fire.
func Fixture(name string) (*ssa.Package, error) {
	src, err := fixtureFS.ReadFile("fixtures/" + name + ".go.txt")
	if err != nil {
		return nil, err
	}
	dir, err := os.MkdirTemp("", "argotcheck-fixture-")
	if err != nil {
		return nil, err
	}
	defer os.RemoveAll(dir)
	if err := os.WriteFile(filepath.Join(dir, "go.mod"), []byte("module fixture\n\ngo 1.22\n"), 0o644); err != nil {
		return nil, err
	}
	if err := os.WriteFile(filepath.Join(dir, name+".go"), src, 0o644); err != nil {
		return nil, err
	}
	cfg := &packages.Config{Mode: packages.LoadAllSyntax, Dir: dir,
		Env: append(os.Environ(), "GOFLAGS=-mod=mod", "GOPROXY=off", "GOWORK=off", "GOSUMDB=off", "GOTOOLCHAIN=local")}
	pkgs, err := packages.Load(cfg, ".")
	if err != nil {
		return nil, err
	}
	if len(pkgs) != 1 || len(pkgs[0].Errors) > 0 {
		return nil, fmt.Errorf("fixture %s: load errors %v", name, pkgs[0].Errors)
	}
	prog, ssapkgs := ssautil.AllPackages(pkgs, ssa.InstantiateGenerics)
	prog.Build()
	if len(ssapkgs) != 1 || ssapkgs[0] == nil {
		return nil, fmt.Errorf("fixture %s: no SSA package", name)
	}
	return ssapkgs[0], nil
}

// FixtureFuncs returns the functions and methods of a fixture package by name ("T.m" for methods).
func FixtureFuncs(p *ssa.Package) map[string]*ssa.Function {
	res := map[string]*ssa.Function{}
	for _, m := range p.Members {
		switch x := m.(type) {
		case *ssa.Function:
			res[x.Name()] = x
		case *ssa.Type:
			ms := p.Prog.MethodSets.MethodSet(types.NewPointer(x.Type()))
			for i := 0; i < ms.Len(); i++ {
				if f := p.Prog.MethodValue(ms.At(i)); f != nil {
					res[x.Name()+"."+f.Name()] = f
				}
			}
		}
	}
	return res
}
