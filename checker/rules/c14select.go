package rules

import (
	"fmt"
	"go/constant"
	"go/token"
	"go/types"

	"golang.org/x/tools/go/ssa"

	"verif/checker/core"
)

// c14select (R14.select): the result tuple of an *ssa.Select has one slot per
// RECEIVE state, whatever the element type of the channel: (index, recvOk,
// recv_0, recv_1, ...). The Select arm of transferFunction numbers the slots
// with a counter carried around the loop over the states. The counter must
// advance on every iteration whose state is a receive: if some path of the
// loop body is taken for a receive state and leaves the counter unchanged (an
// early `continue` for untracked element types), the next tracked receive is
// stored in the wrong tuple field, the Extract reads an empty node, and every
// access through the received pointer is classified local.
func c14select(c *core.Ctx, r *core.Report) {
	r.Explain("R14.select: in the *ssa.Select arm of escape.transferFunction the slot counter carried around the loop over the select states is incremented on every path of the loop body that a receive state (Dir == RecvOnly) can take; decided on the SSA loop by evaluating the direction tests for a receive state.")
	fn := c.Func("analysis/escape", "functionAnalysisState.transferFunction")
	if fn == nil {
		r.Fail("infra.anchor-unresolved", "R14.select|transferFunction", "", "not found")
		return
	}
	entries, _ := core.TypeCaseEntry(fn, "Select")
	if len(entries) == 0 {
		r.Fail("R14.select", "analysis/escape.functionAnalysisState.transferFunction|select-arm", c.Pos(fn.Pos()), "no arm for *ssa.Select")
		return
	}
	entry := entries[0]
	// the loop over the states inside the arm and its counter
	var counter *ssa.Phi
	var loop *core.Loop
	// the arm itself, or a helper of the package the arm hands the *ssa.Select to
	type cand struct {
		f      *ssa.Function
		within *ssa.BasicBlock
	}
	cands := []cand{{fn, entry}}
	for _, b := range fn.Blocks {
		if !entry.Dominates(b) {
			continue
		}
		for _, ins := range b.Instrs {
			call, ok := ins.(ssa.CallInstruction)
			if !ok {
				continue
			}
			sc := call.Common().StaticCallee()
			if sc == nil || sc.Blocks == nil || c.FuncPkgRel(sc) != "analysis/escape" {
				continue
			}
			for _, a := range call.Common().Args {
				if core.ShortType(a.Type()) == "*ssa.Select" {
					cands = append(cands, cand{sc, nil})
				}
			}
		}
	}
	for _, cd := range cands {
		for _, l := range core.Loops(cd.f) {
			if cd.within != nil && !cd.within.Dominates(l.Header) {
				continue
			}
			for _, ins := range l.Header.Instrs {
				phi, ok := ins.(*ssa.Phi)
				if !ok {
					break
				}
				if phi.Comment == "rangeindex" {
					continue
				}
				if b, ok := types.Unalias(phi.Type()).Underlying().(*types.Basic); !ok || b.Info()&types.IsInteger == 0 {
					continue
				}
				for _, e := range phi.Edges {
					if bo, ok := e.(*ssa.BinOp); ok && bo.Op == token.ADD && bo.X == ssa.Value(phi) {
						counter, loop = phi, l
					}
				}
			}
		}
	}
	if counter == nil {
		r.Fail("R14.select", "analysis/escape.functionAnalysisState.transferFunction|select-arm|slot-counter", c.Pos(entry.Instrs[0].Pos()), "no slot counter carried around a loop found in the Select arm: the numbering of receive slots cannot be decided")
		return
	}
	r.Analysed("analysis/escape.functionAnalysisState.transferFunction")
	// a receive state: Dir == RecvOnly (2) is true, Dir == SendOnly (1) false
	oracle := func(v ssa.Value) (bool, bool) {
		bo, ok := v.(*ssa.BinOp)
		if !ok || (bo.Op != token.EQL && bo.Op != token.NEQ) {
			return false, false
		}
		for _, pair := range [][2]ssa.Value{{bo.X, bo.Y}, {bo.Y, bo.X}} {
			k, isC := pair[1].(*ssa.Const)
			if !isC || k.Value == nil || k.Value.Kind() != constant.Int {
				continue
			}
			p, _ := c.PathAndRootOf(pair[0])
			if p != "Dir" && !(len(p) > 4 && p[len(p)-4:] == ".Dir") {
				continue
			}
			n, _ := constant.Int64Val(k.Value)
			eq := n == int64(types.RecvOnly)
			if bo.Op == token.NEQ {
				return !eq, true
			}
			return eq, true
		}
		return false, false
	}
	// loop body entry: the successor of the header inside the loop
	var body *ssa.BasicBlock
	for _, s := range loop.Header.Succs {
		if loop.Body[s] {
			body = s
		}
	}
	var bad []string
	for i, p := range loop.Header.Preds {
		if !loop.Body[p] {
			continue // loop entry edge
		}
		if counter.Edges[i] != ssa.Value(counter) {
			continue // the counter changes on this back edge
		}
		if body != nil && core.ReachWithOracle(c, body, loop.Header, p, oracle) {
			bad = append(bad, c.Pos(p.Instrs[len(p.Instrs)-1].Pos()))
		}
	}
	r.Check(len(bad) == 0, "R14.select", "analysis/escape.functionAnalysisState.transferFunction|select-arm|slot-counter", c.Pos(counter.Pos()),
		"the slot counter advances on every path a receive state can take",
		fmt.Sprintf("a receive state can go round the loop without advancing the slot counter (back edge at %v): a receive from a channel of untracked values shifts the slots of the following receives, the received pointer is read from an empty tuple field and every access through it is classified local", bad))
}
