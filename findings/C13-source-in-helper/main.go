package main

import (
	"fmt"
	"sync"
)

func source1() string { return "secret-data" }

func sink1(s string) { fmt.Println("SINK:", s) }

type Box struct{ val string }

func consumer(b *Box, ready chan struct{}, wg *sync.WaitGroup) {
	defer wg.Done()
	<-ready
	sink1(b.val)
}

// the source call sits in a helper: the tainted value comes back through a return
func fetch() string { return source1() }

func main() {
	var wg sync.WaitGroup
	ready := make(chan struct{})
	b := &Box{}
	wg.Add(1)
	go consumer(b, ready, &wg)
	b.val = fetch() // written to an object already shared with the consumer goroutine
	close(ready)
	wg.Wait()
}
