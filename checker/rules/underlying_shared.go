package rules

import (
	"fmt"

	"verif/checker/core"
)

// underlyingRule: a test of a go/types.Type against a structural type
// (t.(*types.Array), case *types.Pointer: ...) silently fails for defined
// (named) types and aliases unless the operand is an underlying / core type or
// the same switch has a *types.Named arm. In constraint generation and
// transfer functions the failing branch means "no constraint / no effect", so
// an unguarded test drops the effect for every program that declares a named
// type of that shape. Every test in scope must be guarded (operand is the
// result of Underlying()/CoreType() directly or through a local variable; the
// enclosing type switch has a *types.Named case; the target is *types.Tuple;
// the operand is the type of a function object) or be listed with a reason.
func underlyingRule(c *core.Ctx, r *core.Report, rule string, scope func(t core.TypeTest) bool, exceptions map[string]string, consequence string) {
	r.Explain(rule + ": every test of a go/types.Type against a structural type in scope is guarded (operand is an Underlying()/CoreType() result, the switch has a *types.Named arm, the target is a tuple, the operand is the type of a function object or of an address-valued instruction) or listed with a reason.")
	n, guarded := 0, 0
	seen := map[string]int{}
	for _, t := range core.StructuralTypeTests(c) {
		if !scope(t) {
			continue
		}
		n++
		if t.Guard != "" {
			guarded++
			continue
		}
		key := fmt.Sprintf("%s|%s.(%s)", t.Func, t.Operand, t.Target)
		seen[key]++
		if seen[key] > 1 {
			key = fmt.Sprintf("%s#%d", key, seen[key])
		}
		if why, ok := exceptions[key]; ok {
			r.Except(rule, key, t.Pos, why)
			continue
		}
		r.Fail(rule, key, t.Pos, fmt.Sprintf("%s is tested against %s without going through Underlying()/CoreType() and without a *types.Named arm: for a defined type of that shape (e.g. `type Ring [3]*Node`) the test fails and %s", t.Operand, t.Target, consequence))
	}
	r.OK(rule, "guarded-tests", "", fmt.Sprintf("%d of %d structural type tests in scope are guarded (underlying operand, *types.Named arm, tuple target or function-object type)", guarded, n))
	r.Extra[rule+"_type_tests"] = n
	if n < 10 {
		r.Fail("infra.floor", rule+"|type-tests", "", fmt.Sprintf("only %d structural type tests found in scope", n))
	}
}
