package main

import "fmt"

func source() string { return "tainted" }
func sink(s string)  { fmt.Println(s) }

func two() (int, any) { return 0, source() }

func one() any { return source() }

func main() {
	_, i := two()
	s, ok := i.(string) // comma-ok type assertion: a tuple that is not a call result
	if ok {
		sink(s) // flow: must be reported
	}
	j := one()
	t, ok2 := j.(string)
	if ok2 {
		sink(t) // flow (control)
	}
	ch := make(chan any, 1)
	_, k := two()
	ch <- k
	u, ok3 := <-ch // comma-ok receive
	if ok3 {
		sink(u.(string)) // flow: must be reported
	}
}
