#!/bin/bash
# usage: one_neutral.sh <patch.diff>  -- prints silent / FALSE ALARM for one behaviour-preserving patch
f=$1
out=$(/verif/tools/try_neutral.sh $f 2>&1)
n=$(echo "$out" | grep -c 'violation')
lab="$(basename $(dirname $f))/$(basename $f)"
if echo "$out" | grep -q "does not apply"; then echo "$lab: DOES NOT APPLY (tree changed)"; exit 0; fi
if ! echo "$out" | grep -q "^done "; then echo "$lab: ERROR (checks did not run) $(echo "$out" | tail -n 2 | tr "\n" " " | cut -c1-200)"; exit 0; fi
if [ "$n" -gt 0 ]; then echo "$lab: FALSE ALARM ($n)"; echo "$out" | grep violation | cut -c1-200; else echo "$lab: silent"; fi
