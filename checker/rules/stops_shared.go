package rules

import (
	"fmt"
	"sort"
	"strings"

	"golang.org/x/tools/go/ssa"

	"verif/checker/core"
)

// stopsRule (R01.stops / R03.stops): the traversal refuses to enqueue a reached
// state only for the documented reasons. In (*Visitor).addNext a REFUSAL
// condition is a branch one side of which can no longer reach the append to the
// work queue. Every refusal condition must read one of the stop criteria of the
// visitor (table below, one marker per criterion): the visited set, the depth
// limit, the lasso test of the call / closure stacks, the access-path match of
// the edge, the validator conditions of the edge, the escape-context
// management, the tuple index of a return edge. A refusal that reads none of
// them (the kind of the node, the function it belongs to, whether its summary
// is built, ...) drops flows the property requires. Conditions that only route
// (both sides can still reach the enqueue) have nothing to discharge.
func stopsRule(c *core.Ctx, r *core.Report, rule, pkgRel string, floor int) {
	type marker struct{ what, call, path string }
	table := []marker{
		{"visited set", "", "seen"},
		{"depth limit", "ExceedsMaxDepth", ""},
		{"lasso test", "GetLassoHandle", ""},
		{"access-path match", "", "AccessPaths"},
		{"access-path match", "", "RelPath"},
		{"validator conditions of the edge", "", "Cond"},
		{"escape-context management", "manageEscapeContexts", ""},
		{"tuple index of the return edge", "", "Index"},
	}
	r.Explain(rule + ": in " + pkgRel + ".(*Visitor).addNext every branch one side of which can no longer reach the append to the work queue reads one of the stop criteria (visited set, depth limit, lasso test, access-path match, validator conditions, escape-context management, tuple index); routing branches have nothing to discharge.")
	fn := c.Func(pkgRel, "Visitor.addNext")
	if fn == nil {
		r.Fail("infra.anchor-unresolved", rule+"|"+pkgRel+".Visitor.addNext", "", "not found")
		return
	}
	r.Analysed(pkgRel + ".Visitor.addNext")
	enq := map[*ssa.BasicBlock]bool{}
	for _, b := range fn.Blocks {
		for _, ins := range b.Instrs {
			call, ok := ins.(*ssa.Call)
			if !ok {
				continue
			}
			if bi, ok := call.Call.Value.(*ssa.Builtin); ok && bi.Name() == "append" && len(call.Call.Args) > 0 && strings.Contains(call.Call.Args[0].Type().String(), "dataflow.VisitorNode") {
				enq[b] = true
			}
		}
	}
	if len(enq) == 0 {
		r.Fail("infra.anchor-unresolved", rule+"|"+pkgRel+".Visitor.addNext|enqueue", c.Pos(fn.Pos()), "no append to the work queue found")
		return
	}
	// blocks from which an enqueue is reachable
	can := map[*ssa.BasicBlock]bool{}
	var work []*ssa.BasicBlock
	for b := range enq {
		can[b] = true
		work = append(work, b)
	}
	for len(work) > 0 {
		b := work[len(work)-1]
		work = work[:len(work)-1]
		for _, p := range b.Preds {
			if !can[p] {
				can[p] = true
				work = append(work, p)
			}
		}
	}
	hasMarker := func(sl *core.ReadPaths) bool {
		for _, m := range table {
			if m.call != "" {
				for k := range sl.Calls {
					if k == m.call || strings.HasPrefix(k, m.call+"[") {
						return true
					}
				}
			}
			if m.path != "" && sl.HasSuffix(m.path) {
				return true
			}
		}
		return false
	}
	// branch conditions inside the helpers addNext calls directly, by call site: a predicate helper
	// (`if v.isValidatedEdge(s, edgeInfo)`) returns constants, what it decides on is in its own branches
	helperConds := map[ssa.Instruction][]core.InlinedInstr{}
	for _, hi := range core.InlinedInstrs(c, fn, c.Depth(1), func(ins ssa.Instruction) bool { _, ok := ins.(*ssa.If); return ok }) {
		if chain := hi.CallChain(); len(chain) > 0 {
			site := chain[len(chain)-1].(ssa.Instruction)
			helperConds[site] = append(helperConds[site], hi)
		}
	}
	var callsIn func(v ssa.Value, d int) []ssa.Instruction
	callsIn = func(v ssa.Value, d int) []ssa.Instruction {
		if d > 3 {
			return nil
		}
		switch x := v.(type) {
		case *ssa.Call:
			return []ssa.Instruction{x}
		case *ssa.UnOp:
			return callsIn(x.X, d+1)
		case *ssa.BinOp:
			return append(callsIn(x.X, d+1), callsIn(x.Y, d+1)...)
		case *ssa.Extract:
			return callsIn(x.Tuple, d+1)
		case *ssa.Phi:
			var res []ssa.Instruction
			for _, e := range x.Edges {
				res = append(res, callsIn(e, d+1)...)
			}
			return res
		}
		return nil
	}
	n := 0
	var bad []string
	for _, ii := range core.InlinedInstrs(c, fn, 0, func(ins ssa.Instruction) bool { _, ok := ins.(*ssa.If); return ok }) {
		b := ii.Ins.Block()
		if !can[b] || len(b.Succs) != 2 || can[b.Succs[0]] == can[b.Succs[1]] {
			continue
		}
		// the branch must itself lie before the enqueue (not after it)
		n++
		sl := ii.Slice(ii.Ins.(*ssa.If).Cond)
		ok := hasMarker(sl)
		if !ok {
			for _, site := range callsIn(ii.Ins.(*ssa.If).Cond, 0) {
				for _, hc := range helperConds[site] {
					if hasMarker(hc.Slice(hc.Ins.(*ssa.If).Cond)) {
						ok = true
					}
				}
			}
		}
		if !ok {
			pos := ii.Ins.(*ssa.If).Cond.Pos()
			for _, x := range b.Instrs {
				if !pos.IsValid() && x.Pos().IsValid() {
					pos = x.Pos()
				}
			}
			var ps []string
			for p := range sl.Paths {
				ps = append(ps, p)
			}
			sort.Strings(ps)
			if len(ps) > 6 {
				ps = ps[:6]
			}
			bad = append(bad, fmt.Sprintf("%s (reads %s)", c.Pos(pos), strings.Join(ps, ", ")))
		}
	}
	if n < floor {
		r.Fail("infra.anchor-unresolved", rule+"|"+pkgRel+".Visitor.addNext|refusals", c.Pos(fn.Pos()), fmt.Sprintf("expected at least %d refusal conditions, found %d", floor, n))
		return
	}
	sort.Strings(bad)
	r.Check(len(bad) == 0, rule, pkgRel+".Visitor.addNext|refusal-reasons", c.Pos(fn.Pos()),
		fmt.Sprintf("all %d refusal conditions read a documented stop criterion", n),
		"a reached state is refused (not enqueued) under a condition that reads none of the stop criteria of the traversal (visited set, depth limit, lasso, access-path match, validator conditions, escape contexts, tuple index): "+strings.Join(bad, "; ")+" - the flow through such a state is silently dropped")
}
