package rules

import (
	"fmt"
	"sort"

	"verif/checker/core"
)

func init() { Registry["INV-operands"] = invOperands }

func invOperands(c *core.Ctx, r *core.Report) {
	tab, probs := c.OperandTable()
	var ks []string
	for k := range tab {
		ks = append(ks, k)
	}
	sort.Strings(ks)
	for _, k := range ks {
		fmt.Println(k, tab[k])
	}
	fmt.Println("problems:", probs)
	g := c.RepoGraph()
	cone := g.Cone(true, c.Func("analysis/dataflow", "RunIntraProcedural"))
	fmt.Println("cone size", len(cone))
	reads := core.FieldReads(cone)
	var rk []string
	for k := range reads {
		rk = append(rk, k)
	}
	sort.Strings(rk)
	fmt.Println(rk)
	r.OK("inv", "done", "", "")
}
