package rules

import (
	"fmt"

	"golang.org/x/tools/go/ssa"

	"verif/checker/core"
)

// c11runtime (R11.noeffect.pkg): which functions generate NO constraints is a
// soundness switch. Besides the user-configured list (R11.noeffect) and the
// intrinsics table keyed by exact function name, findIntrinsic ignores package
// "runtime" as a whole. That package test must be an exact comparison of the
// package path: a prefix / substring / pattern test ("runtime/...") also
// silences the public packages runtime/pprof, runtime/trace, runtime/debug ...
// whose functions take callbacks and carry pointers (pprof.Do, trace.WithRegion).
// Decided on SSA with helpers inlined: no call of a strings / regexp / path
// matching function receives a value derived from (*types.Package).Path() in the
// cone of findIntrinsic and findSummary.
func c11runtime(c *core.Ctx, r *core.Report) { c11runtimeAs(c, r, "R11.noeffect.pkg") }

func c11runtimeAs(c *core.Ctx, r *core.Report, rule string) {
	r.Explain(rule + ": the package-wide no-effect filter of findIntrinsic / findSummary compares the package path for equality; no strings/regexp/path matching function receives a value derived from (*types.Package).Path() (functions of runtime/pprof, runtime/trace ... keep their bodies, call edges to their callbacks exist).")
	n := 0
	var bad []string
	for _, name := range []string{"analysis.findIntrinsic", "analysis.findSummary"} {
		fn := c.Func("internal/pointer", name)
		if fn == nil {
			r.Fail("infra.anchor-unresolved", rule+"|internal/pointer."+name, "", "not found")
			continue
		}
		r.Analysed("internal/pointer." + name)
		for _, ii := range core.InlinedInstrs(c, fn, c.Depth(2), func(ins ssa.Instruction) bool {
			call, ok := ins.(*ssa.Call)
			if !ok {
				return false
			}
			sc := call.Call.StaticCallee()
			if sc == nil || sc.Pkg == nil {
				return false
			}
			switch sc.Pkg.Pkg.Path() {
			case "strings", "regexp", "path", "path/filepath":
				return true
			}
			return false
		}) {
			call := ii.Ins.(*ssa.Call)
			for _, a := range call.Call.Args {
				if ii.Slice(a).Calls["Path"] {
					bad = append(bad, fmt.Sprintf("%s.%s at %s", call.Call.StaticCallee().Pkg.Pkg.Path(), call.Call.StaticCallee().Name(), c.Pos(call.Pos())))
					break
				}
			}
		}
		// count exact comparisons (non-vacuity)
		for _, ii := range core.InlinedInstrs(c, fn, c.Depth(2), func(ins ssa.Instruction) bool {
			bo, ok := ins.(*ssa.BinOp)
			return ok && bo.Op.String() == "=="
		}) {
			bo := ii.Ins.(*ssa.BinOp)
			if ii.Slice(bo.X).Calls["Path"] || ii.Slice(bo.Y).Calls["Path"] {
				n++
			}
		}
	}
	r.Check(len(bad) == 0 && n >= 1, rule, "internal/pointer.analysis.findIntrinsic|package-test-exact", "",
		"the package-wide no-effect filter compares the package path for equality",
		fmt.Sprintf("the package-wide no-effect filter matches the package path with a prefix / substring / pattern function (%v; %d exact comparisons found): functions of other packages sharing the prefix (runtime/pprof.Do, runtime/trace.WithRegion, ...) generate no constraints, their arguments never reach parameters, their callbacks get no call edge", bad, n))
}
