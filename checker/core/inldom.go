package core

import (
	"fmt"

	"golang.org/x/tools/go/ssa"
)

// Dominates reports whether a executes before b on every path of the inlined
// program that reaches b. Both must come from the same InlinedInstrs
// enumeration (shared calling-context frames). When a sits in a helper deeper
// than the deepest context common to both, the call of that helper stands for
// a (the helper is assumed to execute a: lenient, never an alarm of its own).
func (a InlinedInstr) Dominates(b InlinedInstr) bool {
	chain := func(fr *rpFrame) []*rpFrame {
		var res []*rpFrame
		for f := fr; f != nil; f = f.parent {
			res = append([]*rpFrame{f}, res...)
		}
		return res
	}
	ca, cb := chain(a.frame), chain(b.frame)
	n := 0
	for n < len(ca) && n < len(cb) && ca[n] == cb[n] {
		n++
	}
	// position of each in the common context (frame ca[n-1], or the outermost function when n == 0)
	pa, pb := a.Ins, b.Ins
	if n < len(ca) {
		pa = ca[n].call.(ssa.Instruction)
	}
	if n < len(cb) {
		pb = cb[n].call.(ssa.Instruction)
	}
	if pa.Block() == pb.Block() {
		for _, ins := range pa.Block().Instrs {
			if ins == pa {
				return pa != pb
			}
			if ins == pb {
				return false
			}
		}
		return false
	}
	return pa.Block().Dominates(pb.Block())
}

// Canon renders a canonical name of the object a value denotes in the
// instruction's calling context: interface conversions and type assertions are
// transparent, field paths are rendered, parameters are resolved through the
// calling contexts, and the root value is named by identity. Two values with
// the same Canon denote the same object expression (`cur.ClosureTrace.Label`
// read twice, `graphNode` bound by a type switch on `cur.Node`, a helper's
// parameter and the argument passed for it).
func (ii InlinedInstr) Canon(v ssa.Value) string {
	fr := ii.frame
	path := ""
	for i := 0; i < 12; i++ {
		switch x := v.(type) {
		case *ssa.MakeInterface:
			v = x.X
			continue
		case *ssa.ChangeInterface:
			v = x.X
			continue
		case *ssa.TypeAssert:
			v = x.X
			continue
		case *ssa.Extract:
			if ta, ok := x.Tuple.(*ssa.TypeAssert); ok && x.Index == 0 {
				v = ta.X
				continue
			}
		}
		r := &ReadPaths{c: ii.c}
		r.rootFrame = fr
		p, root := r.pathAndRoot(v, fr, 0)
		if p != "" {
			if path == "" {
				path = p
			} else {
				path = p + "." + path
			}
		}
		if root == v && p == "" {
			break
		}
		v, fr = root, r.rootFrame
	}
	return fmt.Sprintf("%p:%s.%s", v, v.Name(), path)
}
