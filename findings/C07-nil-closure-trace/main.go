package main

import "fmt"

func source() string { return "secret" }

func sink(s string) { fmt.Println(s) }

var g string

func main() {
	s := source()
	x := ""
	f := func() { x = g }
	h := func() string { return s }
	g = h()
	f()
	sink(x)
}
