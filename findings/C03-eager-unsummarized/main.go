package main

import (
	"fmt"
	"path"
)

func origin() string { return "file.secret" }

func other() string { return "plain" }

func sink(s string) { fmt.Println(s) }

func main() {
	// path.Ext has no predefined summary, but package path has some (Base, Clean, Join): the eager pass does not
	// summarise path.Ext from its body either. Its body is plain slicing (no unsafe, reflection or recover).
	sink(path.Ext(origin()))

	// control: no library function in between
	sink(other())
}
