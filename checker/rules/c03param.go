package rules

import (
	"golang.org/x/tools/go/ssa"

	"verif/checker/core"
)

// c03param (R03.param): a parameter reached by the backward traversal must be
// propagated to call-site arguments: the argument of the call site found at the
// top of the call stack, or, without such a context, the arguments of all call
// sites of the function. On the SSA CFG of backtrace.Visitor.visit: from the
// entry of the *ParamNode arm, the end of the arm must not be reachable without
// crossing a block that attempts the propagation - reads CallNode.Args() of a
// call site, or iterates over the function's Callsites (a loop with zero
// iterations still counts: there is nothing to propagate to). Paths that end in
// a return or a panic are error exits.
func c03param(c *core.Ctx, r *core.Report) {
	r.Explain("R03.param: from the entry of the *ParamNode arm of backtrace.(*Visitor).visit (or of the helper the arm delegates to) the end of the arm is not reachable without crossing a block that reads CallNode.Args() of a call site or iterates over the function Callsites; error exits excepted.")
	fn := c.Func("analysis/backtrace", "Visitor.visit")
	if fn == nil {
		r.Fail("infra.anchor-unresolved", "R03.param|analysis/backtrace.Visitor.visit", "", "not found")
		return
	}
	var entries []*ssa.BasicBlock
	all, ifBlocks := core.TypeCaseEntryOf(fn, "*dataflow.ParamNode")
	for i, e := range all {
		// arms of the switch over the node being visited: the asserted value is also tested against other node kinds
		iff := ifBlocks[i].Instrs[len(ifBlocks[i].Instrs)-1].(*ssa.If)
		ta := iff.Cond.(*ssa.Extract).Tuple.(*ssa.TypeAssert)
		n := 0
		if ta.X.Referrers() != nil {
			for _, ref := range *ta.X.Referrers() {
				if _, ok := ref.(*ssa.TypeAssert); ok {
					n++
				}
			}
		}
		if n >= 5 {
			entries = append(entries, e)
		}
	}
	if len(entries) == 0 {
		r.Fail("infra.anchor-unresolved", "R03.param|analysis/backtrace.Visitor.visit|ParamNode-arm", c.Pos(fn.Pos()), "arm not found")
		return
	}
	r.Analysed("analysis/backtrace.Visitor.visit")
	for _, entry := range entries {
		// the arm may hand the node to a helper of the package (`v.visitParamNode(s, cur, graphNode, ...)`): the rule
		// is then decided on the helper's body
		armFn, armEntry := fn, entry
		for hops := 0; hops < 2; hops++ {
			hasAttempt, next := false, (*ssa.Function)(nil)
			for _, b := range armFn.Blocks {
				if !armEntry.Dominates(b) {
					continue
				}
				for _, ins := range b.Instrs {
					call, ok := ins.(*ssa.Call)
					if !ok {
						continue
					}
					sc := call.Call.StaticCallee()
					if sc == nil {
						continue
					}
					if sc.Name() == "Args" && sc.Signature.Recv() != nil && core.ShortType(sc.Signature.Recv().Type()) == "*dataflow.CallNode" {
						hasAttempt = true
					}
					if sc.Blocks != nil && c.FuncPkgRel(sc) == "analysis/backtrace" {
						for _, a := range call.Call.Args {
							if core.ShortType(a.Type()) == "*dataflow.ParamNode" {
								next = sc
							}
						}
					}
				}
			}
			if hasAttempt || next == nil {
				break
			}
			armFn, armEntry = next, next.Blocks[0]
		}
		checkParamArm(c, r, armFn, armEntry, entry)
	}
}

func checkParamArm(c *core.Ctx, r *core.Report, fn *ssa.Function, entry, reportAt *ssa.BasicBlock) {
	{
		attempt := map[*ssa.BasicBlock]bool{}
		nAttempt := 0
		for _, b := range fn.Blocks {
			if !entry.Dominates(b) {
				continue
			}
			for _, ins := range b.Instrs {
				switch x := ins.(type) {
				case *ssa.Call:
					if sc := x.Call.StaticCallee(); sc != nil && sc.Name() == "Args" && sc.Signature.Recv() != nil && core.ShortType(sc.Signature.Recv().Type()) == "*dataflow.CallNode" {
						attempt[b] = true
					}
					if bi, ok := x.Call.Value.(*ssa.Builtin); ok && bi.Name() == "len" && core.NewReadPaths(c, x.Call.Args[0]).HasSuffix("Callsites") {
						attempt[b] = true
					}
				case *ssa.Range:
					if core.NewReadPaths(c, x.X).HasSuffix("Callsites") {
						attempt[b] = true
					}
				}
			}
			if attempt[b] {
				nAttempt++
			}
		}
		// reachability of the arm's end without crossing an attempt
		var escape *ssa.BasicBlock
		seen := map[*ssa.BasicBlock]bool{}
		st := []*ssa.BasicBlock{entry}
		for len(st) > 0 && escape == nil {
			b := st[len(st)-1]
			st = st[:len(st)-1]
			if seen[b] || attempt[b] {
				continue
			}
			seen[b] = true
			if !entry.Dominates(b) {
				escape = b
				break
			}
			if ret, isRet := b.Instrs[len(b.Instrs)-1].(*ssa.Return); isRet && entry == fn.Blocks[0] {
				// the arm is a helper function: a normal return is the end of the arm, an error return is an exit
				errExit := false
				for _, res := range ret.Results {
					if k, isC := res.(*ssa.Const); res.Type().String() == "error" && !(isC && k.IsNil()) {
						errExit = true
					}
				}
				if !errExit {
					escape = b
					break
				}
			}
			st = append(st, b.Succs...)
		}
		r.Check(escape == nil && nAttempt >= 2, "R03.param", "analysis/backtrace.Visitor.visit|ParamNode-arm|propagates-to-call-sites", c.Pos(reportAt.Instrs[0].Pos()),
			"every path through the arm propagates the parameter to the argument of the call site in context or iterates over all call sites",
			"a path through the *ParamNode arm reaches the end of the arm without reading the argument of any call site and without iterating over the function's call sites: a parameter reached with a call stack whose top is not a call to this function is silently not propagated, and everything upstream of it disappears from the traces")
	}
}
