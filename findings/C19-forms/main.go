package main

import "time"

type Runner interface{ Run() }
type job struct{}

func (job) Run() { panic("boom in interface-launched goroutine") }

func worker() { panic("boom in function-value-launched goroutine") }

func named() { panic("boom in named goroutine") }

func launch(r Runner, f func()) {
	go r.Run() // interface method value: not recorded
	go f()     // function value (parameter): not recorded
	go named() // named function: recorded
}

func main() {
	launch(job{}, worker)
	time.Sleep(time.Second)
}
