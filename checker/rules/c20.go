package rules

import (
	"fmt"
	"go/token"
	"go/types"
	"sort"
	"strings"

	"golang.org/x/tools/go/ssa"

	"verif/checker/core"
)

func init() { Registry["C20"] = c20 }

// goExceptions: go statements that are not part of an analysis run.
var goExceptions = map[string]string{
	"cmd/argot/cli": "interactive CLI: goroutine waiting for an OS signal to restore the terminal; lives for the whole process by design and touches no analysis state",
}

type goroutine struct {
	goInstr *ssa.Go
	fn      *ssa.Function
	env     map[ssa.Value]ssa.Value // FreeVar/Parameter of fn -> value in the spawner
}

// syncObj resolves a value used inside fn (under env) to the spawner-level
// object it denotes: the variable cell (Alloc) it was loaded from, or the value.
func syncObj(v ssa.Value, env map[ssa.Value]ssa.Value) ssa.Value {
	for i := 0; i < 8; i++ {
		if b, ok := env[v]; ok {
			v = b
			continue
		}
		switch x := v.(type) {
		case *ssa.UnOp:
			if x.Op == token.MUL {
				v = x.X
				continue
			}
		case *ssa.ChangeType:
			v = x.X
			continue
		}
		break
	}
	if b, ok := env[v]; ok {
		return b
	}
	return v
}

type syncFacts struct {
	exitSignals []ssa.Value // objects signalled at exit (deferred Done/close, or final)
	waits       []ssa.Value // objects waited on (Wait, range-style receive)
}

func isWGMethod(ins ssa.Instruction, name string) (ssa.Value, bool) {
	ci, ok := ins.(ssa.CallInstruction)
	if !ok {
		return nil, false
	}
	sc := ci.Common().StaticCallee()
	if sc == nil || sc.Name() != name || sc.Signature.Recv() == nil {
		return nil, false
	}
	if n, ok := derefNamed(sc.Signature.Recv().Type()); !ok || n.Obj().Name() != "WaitGroup" || n.Obj().Pkg().Path() != "sync" {
		return nil, false
	}
	if len(ci.Common().Args) == 0 {
		return nil, false
	}
	return ci.Common().Args[0], true
}

func isClose(ins ssa.Instruction) (ssa.Value, bool) {
	ci, ok := ins.(ssa.CallInstruction)
	if !ok {
		return nil, false
	}
	if b, ok := ci.Common().Value.(*ssa.Builtin); ok && b.Name() == "close" && len(ci.Common().Args) == 1 {
		return ci.Common().Args[0], true
	}
	return nil, false
}

func factsOf(fn *ssa.Function, env map[ssa.Value]ssa.Value) syncFacts {
	var f syncFacts
	if fn.Blocks == nil {
		return f
	}
	pd := core.PostDom(fn)
	for _, b := range fn.Blocks {
		for _, ins := range b.Instrs {
			_, isDefer := ins.(*ssa.Defer)
			final := pd[0][b.Index] && fn.Recover != b
			if a, ok := isWGMethod(ins, "Done"); ok && (isDefer || final) {
				f.exitSignals = append(f.exitSignals, syncObj(a, env))
			}
			if a, ok := isClose(ins); ok && (isDefer || final) {
				f.exitSignals = append(f.exitSignals, syncObj(a, env))
			}
			if a, ok := isWGMethod(ins, "Wait"); ok && !isDefer {
				f.waits = append(f.waits, syncObj(a, env))
			}
			if u, ok := ins.(*ssa.UnOp); ok && u.Op == token.ARROW && u.CommaOk {
				f.waits = append(f.waits, syncObj(u.X, env))
			}
		}
	}
	return f
}

func c20(c *core.Ctx, r *core.Report) {
	r.Explain("R20.join: every go statement in non-test code is inventoried; each needs a join witness: the goroutine signals its exit (deferred or final wg.Done / close(ch)) on a sync object the spawner waits on (wg.Wait or range-style receive post-dominating the spawn), transitively through sibling goroutines that wait before they signal (MapParallel: feeder closes in -> workers' range ends -> wg.Done -> closer's wg.Wait -> close(out) -> caller's range). R20.lock: map operations on mutex-guarded fields (GlobalNode.Read/WriteLocations under GlobalNode.mutex; AnalyzerState.errors under errorMutex) are dominated by Lock() on the same object's mutex with a deferred Unlock; the id counters are only passed to sync/atomic functions; the alarm counter has an atomic type. R20.workers: no function reachable from the parallel summary worker writes a field of a process-wide singleton (AnalyzerState, InterProceduralFlowGraph, GlobalNode, config.Config, config.LogGroup, pointer.Result) except under R20.lock. R20.steps: the parallel state-initialisation steps have pairwise disjoint field-level write sets on AnalyzerState (and no step reads what another writes). R20.order: in MapParallel the index stored with a result is the index received with its input and the final store is res[x.idx] = x.x.")
	r.NotDecided("absence of races inside x/tools (ssa.Program is assumed goroutine-safe as documented); deadlock freedom beyond the join chain; wg.Add(n) vs number of spawns; races between the analysis phases and callbacks supplied by library users.")
	c20join(c, r)
	c20lock(c, r)
	c20workers(c, r)
	c20steps(c, r)
	c20order(c, r)
}

func c20join(c *core.Ctx, r *core.Report) {
	bySpawner := map[*ssa.Function][]goroutine{}
	for _, fn := range c.RepoFunctions() {
		if strings.HasSuffix(c.Fset.Position(fn.Pos()).Filename, "_test.go") || strings.Contains(c.Fset.Position(fn.Pos()).Filename, "/testdata/") {
			continue
		}
		if fn.Origin() != nil {
			continue // instantiations duplicate their generic origin
		}
		for _, b := range fn.Blocks {
			for _, ins := range b.Instrs {
				g, ok := ins.(*ssa.Go)
				if !ok {
					continue
				}
				gr := goroutine{goInstr: g, env: map[ssa.Value]ssa.Value{}}
				switch v := g.Call.Value.(type) {
				case *ssa.MakeClosure:
					gr.fn = v.Fn.(*ssa.Function)
					for i, bnd := range v.Bindings {
						gr.env[gr.fn.FreeVars[i]] = bnd
					}
				case *ssa.Function:
					gr.fn = v
					for i, a := range g.Call.Args {
						if i < len(v.Params) {
							gr.env[v.Params[i]] = a
						}
					}
				}
				bySpawner[fn] = append(bySpawner[fn], gr)
			}
		}
	}
	var spawners []*ssa.Function
	for s := range bySpawner {
		spawners = append(spawners, s)
	}
	sort.Slice(spawners, func(i, j int) bool { return spawners[i].String() < spawners[j].String() })
	total := 0
	for _, s := range spawners {
		name := c.FuncName(s)
		r.Analysed(name)
		pd := core.PostDom(s)
		own := factsOf(s, map[ssa.Value]ssa.Value{})
		facts := make([]syncFacts, len(bySpawner[s]))
		for i, g := range bySpawner[s] {
			if g.fn != nil {
				facts[i] = factsOf(g.fn, g.env)
			}
		}
		for i, g := range bySpawner[s] {
			total++
			key := fmt.Sprintf("%s|go#%d", name, i+1)
			pos := c.Pos(g.goInstr.Pos())
			if why, ok := goExceptions[c.FuncPkgRel(s)]; ok {
				r.Except("R20.join", key, pos, why)
				continue
			}
			if g.fn == nil {
				r.Fail("R20.join", key, pos, "goroutine entry is a dynamic function value: cannot establish a join (undecided)")
				continue
			}
			// spawner waits that post-dominate the spawn
			awaited := map[ssa.Value]bool{}
			for _, b := range s.Blocks {
				for _, ins := range b.Instrs {
					if !pd[g.goInstr.Block().Index][b.Index] {
						continue
					}
					if b == g.goInstr.Block() && core.InstrIndex(ins) < core.InstrIndex(g.goInstr) {
						continue
					}
					if a, ok := isWGMethod(ins, "Wait"); ok {
						awaited[syncObj(a, nil)] = true
					}
					if u, ok := ins.(*ssa.UnOp); ok && u.Op == token.ARROW && u.CommaOk {
						awaited[syncObj(u.X, nil)] = true
					}
				}
			}
			_ = own
			for changed := true; changed; {
				changed = false
				for j := range bySpawner[s] {
					sig := false
					for _, o := range facts[j].exitSignals {
						if awaited[o] {
							sig = true
						}
					}
					if sig {
						for _, w := range facts[j].waits {
							if !awaited[w] {
								awaited[w] = true
								changed = true
							}
						}
					}
				}
			}
			joined := false
			for _, o := range facts[i].exitSignals {
				if awaited[o] {
					joined = true
				}
			}
			switch {
			case joined:
				r.OK("R20.join", key, pos, fmt.Sprintf("goroutine %s signals its exit on an object the spawner (transitively) waits on after the spawn", core.ShortFunc(g.fn)))
			case len(facts[i].exitSignals) == 0:
				r.Fail("R20.join", key, pos, fmt.Sprintf("goroutine %s has no exit signal (no deferred/final wg.Done or close): nothing the spawner does can wait for it; it may still be running (and touching shared state / unfinished output) when the spawner returns", core.ShortFunc(g.fn)))
			default:
				r.Fail("R20.join", key, pos, fmt.Sprintf("goroutine %s signals its exit but the spawner never waits on that object on every path after the spawn", core.ShortFunc(g.fn)))
			}
		}
	}
	r.Extra["go_statements"] = total
	r.Floor("R20.join", 5, "5 go statements after the BuildGraph report goroutine was removed (state init, MapParallel x3, cli)")
}

// lockDominates: is ins dominated by a call X.mutexField.Lock() in the same function (with a deferred Unlock)?
func lockDominates(fn *ssa.Function, ins ssa.Instruction, mutexField string) bool {
	hasUnlock := false
	var locks []ssa.Instruction
	for _, b := range fn.Blocks {
		for _, x := range b.Instrs {
			ci, ok := x.(ssa.CallInstruction)
			if !ok {
				continue
			}
			sc := ci.Common().StaticCallee()
			if sc == nil || len(ci.Common().Args) == 0 {
				continue
			}
			recv := ci.Common().Args[0]
			if ld, ok := recv.(*ssa.UnOp); ok && ld.Op == token.MUL {
				recv = ld.X // pointer-typed mutex field: the receiver is loaded from the field
			}
			_, f := core.FieldOf(recv)
			if f == nil || f.Name() != mutexField {
				continue
			}
			switch sc.Name() {
			case "Lock":
				locks = append(locks, x)
			case "Unlock":
				if _, isDefer := x.(*ssa.Defer); isDefer {
					hasUnlock = true
				}
			}
		}
	}
	if !hasUnlock {
		return false
	}
	for _, l := range locks {
		if core.InstrDominates(l, ins) {
			return true
		}
	}
	return false
}

// guarded fields: type.field -> mutex field of the same struct
var guardedFields = map[string]string{
	"GlobalNode.ReadLocations":  "mutex",
	"GlobalNode.WriteLocations": "mutex",
	"AnalyzerState.errors":      "errorMutex",
}

// mapOpsOnField lists map operations (update, lookup, range, delete/len) whose map operand is loaded from the given field.
func mapOpField(ins ssa.Instruction) (string, bool) {
	var m ssa.Value
	switch x := ins.(type) {
	case *ssa.MapUpdate:
		m = x.Map
	case *ssa.Lookup:
		m = x.X
	case *ssa.Range:
		m = x.X
	case *ssa.Call:
		if b, ok := x.Call.Value.(*ssa.Builtin); ok && (b.Name() == "delete" || b.Name() == "len" || b.Name() == "clear") && len(x.Call.Args) > 0 {
			m = x.Call.Args[0]
		}
	}
	if m == nil {
		return "", false
	}
	n, f := core.MapFieldOrigin(m)
	if n == nil {
		return "", false
	}
	return n.Obj().Name() + "." + f.Name(), true
}

func c20lock(c *core.Ctx, r *core.Report) {
	cnt := map[string]int{}
	for _, fn := range c.RepoFunctions() {
		if c.FuncPkgRel(fn) != "analysis/dataflow" || strings.HasSuffix(c.Fset.Position(fn.Pos()).Filename, "_test.go") {
			continue
		}
		for _, b := range fn.Blocks {
			for _, ins := range b.Instrs {
				fld, ok := mapOpField(ins)
				if !ok {
					continue
				}
				mu, guarded := guardedFields[fld]
				if !guarded {
					continue
				}
				name := c.FuncName(fn)
				cnt[name+fld]++
				key := fmt.Sprintf("%s|%s#%d", name, fld, cnt[name+fld])
				r.Check(lockDominates(fn, ins, mu), "R20.lock", key, c.Pos(ins.Pos()), "map operation on "+fld+" is dominated by "+mu+".Lock() with a deferred Unlock",
					"map operation on "+fld+" in package dataflow without holding "+mu+": concurrent summary workers / state steps race on it")
			}
		}
	}
	r.Floor("R20.lock", 5, "addReadLoc, addWriteLoc, AddError, CheckError, HasErrors measured")
	// atomic counters: package-level uint32 vars in dataflow used only as arguments of sync/atomic functions
	p := c.SSAPkg("analysis/dataflow")
	if p == nil {
		return
	}
	found := 0
	for _, m := range p.Members {
		g, ok := m.(*ssa.Global)
		if !ok {
			continue
		}
		pt, ok := g.Type().(*types.Pointer)
		if !ok {
			continue
		}
		bt, ok := pt.Elem().Underlying().(*types.Basic)
		if !ok || bt.Kind() != types.Uint32 {
			continue
		}
		// counters are those passed to atomic at least once
		usedAtomic, usedOther := 0, []string{}
		for _, fn := range c.RepoFunctions() {
			for _, b := range fn.Blocks {
				for _, ins := range b.Instrs {
					var rands []*ssa.Value
					uses := false
					for _, op := range ins.Operands(rands) {
						if *op == ssa.Value(g) {
							uses = true
						}
					}
					if !uses {
						continue
					}
					if sc := core.StaticCalleeOf(ins); sc != nil && sc.Pkg != nil && sc.Pkg.Pkg.Path() == "sync/atomic" {
						usedAtomic++
					} else if fn.Name() != "init" {
						usedOther = append(usedOther, c.FuncName(fn)+"@"+c.Pos(ins.Pos()))
					}
				}
			}
		}
		if usedAtomic == 0 {
			continue
		}
		found++
		r.Check(len(usedOther) == 0, "R20.atomic", "analysis/dataflow."+g.Name(), c.Pos(g.Pos()), fmt.Sprintf("counter is only passed to sync/atomic functions (%d uses)", usedAtomic),
			"counter is also accessed non-atomically at "+strings.Join(usedOther, ", "))
	}
	// pointer/uint32 struct fields of package dataflow handed to sync/atomic: every dereference must go through sync/atomic
	type fkey struct{ t, f string }
	atomicFields := map[fkey]int{}
	otherUse := map[fkey][]string{}
	for _, fn := range c.RepoFunctions() {
		if c.FuncPkgRel(fn) != "analysis/dataflow" {
			continue
		}
		for _, b := range fn.Blocks {
			for _, ins := range b.Instrs {
				ld, ok := ins.(*ssa.UnOp)
				if !ok || ld.Op != token.MUL {
					continue
				}
				n, f := core.FieldOf(ld.X)
				if n == nil {
					continue
				}
				pt, ok := f.Type().(*types.Pointer)
				if !ok {
					continue
				}
				if bt, ok := pt.Elem().Underlying().(*types.Basic); !ok || bt.Kind() != types.Uint32 {
					continue
				}
				k := fkey{n.Obj().Name(), f.Name()}
				for _, ref := range *ld.Referrers() {
					if sc := core.StaticCalleeOf(ref); sc != nil && sc.Pkg != nil && sc.Pkg.Pkg.Path() == "sync/atomic" {
						atomicFields[k]++
					} else if _, isDbg := ref.(*ssa.DebugRef); !isDbg {
						otherUse[k] = append(otherUse[k], c.FuncName(fn)+"@"+c.Pos(ref.Pos()))
					}
				}
			}
		}
	}
	for k, nuse := range atomicFields {
		found++
		r.Check(len(otherUse[k]) == 0, "R20.atomic", "analysis/dataflow."+k.t+"."+k.f, "", fmt.Sprintf("counter behind the pointer field is only accessed through sync/atomic (%d uses)", nuse),
			"counter is also accessed non-atomically at "+strings.Join(otherUse[k], ", "))
	}
	// alarm counter type
	if st := c.LookupObj("analysis/dataflow", "AnalyzerState"); st != nil {
		if s, ok := st.Type().Underlying().(*types.Struct); ok {
			for i := 0; i < s.NumFields(); i++ {
				if s.Field(i).Name() == "numAlarms" {
					found++
					r.Check(strings.HasPrefix(s.Field(i).Type().String(), "sync/atomic."), "R20.atomic", "analysis/dataflow.AnalyzerState.numAlarms", c.Pos(s.Field(i).Pos()),
						"alarm counter has an atomic type", "alarm counter is a plain integer: concurrent visitors race on it")
				}
			}
		}
	}
	r.Floor("R20.atomic", 3, "two id counters + alarm counter")
}

// singletonTypes: process-wide objects shared by all workers.
var singletonTypes = map[string]bool{
	"analysis/dataflow.AnalyzerState": true, "analysis/dataflow.InterProceduralFlowGraph": true, "analysis/dataflow.GlobalNode": true,
	"analysis/config.Config": true, "analysis/config.Options": true, "analysis/config.LogGroup": true, "internal/pointer.Result": true,
}

type fieldWrite struct {
	field string
	ins   ssa.Instruction
	fn    *ssa.Function
}

// singletonWrites lists stores/map updates whose target is a field of a singleton type.
func singletonWrites(c *core.Ctx, lc core.LiveCone) (writes []fieldWrite, reads map[string]bool) {
	reads = map[string]bool{}
	qual := func(n *types.Named) string {
		if n == nil || n.Obj().Pkg() == nil {
			return ""
		}
		return strings.TrimPrefix(n.Obj().Pkg().Path(), core.Module+"/") + "." + n.Obj().Name()
	}
	for fn, liveBlocks := range lc {
		for _, b := range fn.Blocks {
			if !liveBlocks[b] {
				continue
			}
			for _, ins := range b.Instrs {
				switch x := ins.(type) {
				case *ssa.Store:
					if n, f := core.FieldOf(x.Addr); n != nil && singletonTypes[qual(n)] {
						writes = append(writes, fieldWrite{qual(n) + "." + f.Name(), ins, fn})
					}
				case *ssa.MapUpdate:
					if n, f := core.MapFieldOrigin(x.Map); n != nil && singletonTypes[qual(n)] {
						writes = append(writes, fieldWrite{qual(n) + "." + f.Name(), ins, fn})
					}
				case *ssa.Call:
					if bi, ok := x.Call.Value.(*ssa.Builtin); ok && (bi.Name() == "delete" || bi.Name() == "clear") && len(x.Call.Args) > 0 {
						if ld, ok := x.Call.Args[0].(*ssa.UnOp); ok {
							if n, f := core.FieldOf(ld.X); n != nil && singletonTypes[qual(n)] {
								writes = append(writes, fieldWrite{qual(n) + "." + f.Name(), ins, fn})
							}
						}
					}
				case *ssa.FieldAddr:
					if n, f := core.FieldOf(x); n != nil && singletonTypes[qual(n)] {
						reads[qual(n)+"."+f.Name()] = true
					}
				case *ssa.Field:
					if n, f := core.FieldOf(x); n != nil && singletonTypes[qual(n)] {
						reads[qual(n)+"."+f.Name()] = true
					}
				}
			}
		}
	}
	sort.Slice(writes, func(i, j int) bool {
		if writes[i].field != writes[j].field {
			return writes[i].field < writes[j].field
		}
		return writes[i].ins.Pos() < writes[j].ins.Pos()
	})
	return
}

func c20workers(c *core.Ctx, r *core.Report) {
	root := c.Func("analysis", "runSingleFunctionJob")
	if root == nil {
		r.Fail("infra.anchor-unresolved", "R20.workers|analysis.runSingleFunctionJob", "", "summary worker not found")
		return
	}
	g := c.RepoGraph()
	cone := g.NilAwareCone(root)
	r.Extra["worker_cone_functions"] = len(cone)
	writes, _ := singletonWrites(c, cone)
	cnt := map[string]int{}
	for _, w := range writes {
		name := c.FuncName(w.fn)
		cnt[name+w.field]++
		key := fmt.Sprintf("%s|%s#%d", name, w.field, cnt[name+w.field])
		short := w.field[strings.LastIndex(w.field[:strings.LastIndex(w.field, ".")], ".")+1:]
		if mu, ok := guardedFields[short]; ok && lockDominates(w.fn, w.ins, mu) {
			r.OK("R20.workers", key, c.Pos(w.ins.Pos()), "write to shared "+w.field+" reachable from the summary worker holds "+mu)
			continue
		}
		// fresh objects: the singleton-typed object was allocated in the same function (constructor)
		if st, ok := w.ins.(*ssa.Store); ok {
			if fa, ok := st.Addr.(*ssa.FieldAddr); ok {
				if _, isAlloc := fa.X.(*ssa.Alloc); isAlloc {
					r.OK("R20.workers", key, c.Pos(w.ins.Pos()), "initialises a freshly allocated object (not shared yet)")
					continue
				}
			}
		}
		r.Fail("R20.workers", key, c.Pos(w.ins.Pos()), "function reachable from the parallel summary worker (analysis.runSingleFunctionJob) writes shared field "+w.field+" without its lock: NumCPU-1 workers race on it")
	}
	r.OK("R20.workers", "analysis.runSingleFunctionJob|cone", c.Pos(root.Pos()), fmt.Sprintf("cone of %d repository functions scanned for writes to singleton fields", len(cone)))
	r.Floor("R20.workers", 2, "cone + the two mutex-guarded location sets")
}

func c20steps(c *core.Ctx, r *core.Report) {
	fn := c.Func("analysis/dataflow", "NewInitializedAnalyzerState")
	if fn == nil {
		r.Fail("infra.anchor-unresolved", "R20.steps|analysis/dataflow.NewInitializedAnalyzerState", "", "not found")
		return
	}
	g := c.RepoGraph()
	var steps []*ssa.Function
	for _, an := range fn.AnonFuncs {
		if an.Signature.Params().Len() == 1 && an.Signature.Results().Len() == 0 {
			steps = append(steps, an)
		}
	}
	if len(steps) < 2 {
		r.Fail("infra.anchor-unresolved", "R20.steps|steps", c.Pos(fn.Pos()), "fewer than two parallel initialisation steps found")
		return
	}
	type eff struct {
		w map[string]fieldWrite
		r map[string]bool
	}
	effs := make([]eff, len(steps))
	for i, s := range steps {
		cone := g.NilAwareCone(s)
		ws, rs := singletonWrites(c, cone)
		effs[i] = eff{map[string]fieldWrite{}, rs}
		for _, w := range ws {
			if !strings.HasPrefix(w.field, "analysis/dataflow.AnalyzerState.") {
				continue
			}
			short := "AnalyzerState." + w.field[strings.LastIndex(w.field, ".")+1:]
			if mu, ok := guardedFields[short]; ok && lockDominates(w.fn, w.ins, mu) {
				continue
			}
			if _, dup := effs[i].w[w.field]; !dup {
				effs[i].w[w.field] = w
			}
		}
	}
	for i := range steps {
		for j := range steps {
			if i == j {
				continue
			}
			key := fmt.Sprintf("analysis/dataflow.NewInitializedAnalyzerState|step%d-vs-step%d", i+1, j+1)
			var clash []string
			for f, w := range effs[i].w {
				if _, ok := effs[j].w[f]; ok && i < j {
					clash = append(clash, "both write "+f+" ("+c.Pos(w.ins.Pos())+")")
				}
				if effs[j].r[f] {
					if _, alsoW := effs[j].w[f]; !alsoW {
						clash = append(clash, fmt.Sprintf("step %d writes %s (%s) which step %d reads", i+1, f, c.Pos(w.ins.Pos()), j+1))
					}
				}
			}
			sort.Strings(clash)
			var ws []string
			for f := range effs[i].w {
				ws = append(ws, f[strings.LastIndex(f, ".")+1:])
			}
			sort.Strings(ws)
			r.Check(len(clash) == 0, "R20.steps", key, c.Pos(steps[i].Pos()), fmt.Sprintf("step %d writes {%s}: disjoint from what step %d writes or reads", i+1, strings.Join(ws, ","), j+1),
				"parallel initialisation steps interfere: "+strings.Join(clash, "; "))
		}
	}
	r.Floor("R20.steps", 6, "3 steps pairwise")
}

func c20order(c *core.Ctx, r *core.Report) {
	fn := c.Func("internal/funcutil", "MapParallel")
	if fn == nil {
		r.Fail("infra.anchor-unresolved", "R20.order|internal/funcutil.MapParallel", "", "not found")
		return
	}
	r.Analysed("internal/funcutil.MapParallel")
	// (a) the result slice returned is only written by stores res[I] = V where I and V are fields 0 and 1 of the same element
	var ret *ssa.Return
	for _, b := range fn.Blocks {
		if x, ok := b.Instrs[len(b.Instrs)-1].(*ssa.Return); ok {
			ret = x
		}
	}
	if ret == nil || len(ret.Results) != 1 {
		r.Fail("R20.order", "internal/funcutil.MapParallel|return", c.Pos(fn.Pos()), "no single-result return")
		return
	}
	res := ret.Results[0]
	nStores := 0
	good := true
	why := ""
	elemOf := func(v ssa.Value) (ssa.Value, int, bool) {
		// v = load(FieldAddr(E, k)) or Field(E, k)
		if ld, ok := v.(*ssa.UnOp); ok && ld.Op == token.MUL {
			if fa, ok := ld.X.(*ssa.FieldAddr); ok {
				return fa.X, fa.Field, true
			}
		}
		if f, ok := v.(*ssa.Field); ok {
			return f.X, f.Field, true
		}
		return nil, 0, false
	}
	if _, isMake := res.(*ssa.MakeSlice); !isMake {
		good, why = false, "returned slice is not a fresh make([]S, n): results may be appended in completion order"
	}
	if res.Referrers() != nil {
		for _, ref := range *res.Referrers() {
			ia, ok := ref.(*ssa.IndexAddr)
			if !ok {
				if _, isRet := ref.(*ssa.Return); !isRet {
					if _, isDbg := ref.(*ssa.DebugRef); !isDbg {
						good, why = false, "result slice used by "+fmt.Sprintf("%T", ref)
					}
				}
				continue
			}
			for _, u := range *ia.Referrers() {
				st, ok := u.(*ssa.Store)
				if !ok {
					continue
				}
				nStores++
				e1, k1, ok1 := elemOf(ia.Index)
				e2, k2, ok2 := elemOf(st.Val)
				if !(ok1 && ok2 && sameExpr(e1, e2, 0) && k1 == 0 && k2 == 1) {
					good, why = false, "a store into the result slice is not of the form res[e.idx] = e.x for one element e"
				}
			}
		}
	}
	r.Check(good && nStores > 0, "R20.order", "internal/funcutil.MapParallel|final-store", c.Pos(ret.Pos()), "result slice is fresh and only written by res[e.idx] = e.x", "MapParallel does not place results by their input index: "+why)
	// (b) every Send of an index-tagged element copies the idx of a received element or the range index of the input slice
	for _, w := range append([]*ssa.Function{fn}, fn.AnonFuncs...) {
		n := 0
		for _, b := range w.Blocks {
			for _, ins := range b.Instrs {
				snd, ok := ins.(*ssa.Send)
				if !ok {
					continue
				}
				ld, ok := snd.X.(*ssa.UnOp)
				if !ok {
					continue
				}
				cell, ok := ld.X.(*ssa.Alloc)
				if !ok {
					continue
				}
				st, ok := cell.Type().(*types.Pointer).Elem().Underlying().(*types.Struct)
				if !ok || st.NumFields() != 2 || st.Field(0).Name() != "idx" {
					continue
				}
				n++
				// find stores to field 0 and 1 of cell
				var idxVal, xVal ssa.Value
				for _, ref := range *cell.Referrers() {
					if fa, ok := ref.(*ssa.FieldAddr); ok {
						for _, u := range *fa.Referrers() {
							if s2, ok := u.(*ssa.Store); ok {
								if fa.Field == 0 {
									idxVal = s2.Val
								} else {
									xVal = s2.Val
								}
							}
						}
					}
				}
				key := fmt.Sprintf("%s|send#%d", core.ShortFunc(w), n)
				okIdx := false
				detail := ""
				if e, k, ok := elemOf(idxVal); ok && k == 0 {
					// idx copied from a received element; the payload must be computed from the same element's x
					okIdx = true
					detail = "index copied from the received element"
					if call, isCall := xVal.(*ssa.Call); isCall && len(call.Call.Args) == 1 {
						if e2, k2, ok2 := elemOf(call.Call.Args[0]); !(ok2 && k2 == 1 && sameExpr(e, e2, 0)) {
							okIdx = false
							detail = "payload is not computed from the same element whose index is forwarded"
						}
					}
				} else if idxVal != nil {
					// feeder: idx is the range index and x is a[idx]
					if ld2, ok := xVal.(*ssa.UnOp); ok {
						if ia, ok := ld2.X.(*ssa.IndexAddr); ok && ia.Index == idxVal {
							okIdx = true
							detail = "index is the position of the element in the input slice"
						}
					}
				}
				r.Check(okIdx, "R20.order", key, c.Pos(snd.Pos()), detail, "index tag of a sent element is not the position of its input: results are permuted")
			}
		}
	}
	r.Floor("R20.order", 3, "final store + feeder send + worker send")
}
