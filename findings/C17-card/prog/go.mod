module prog
go 1.22
