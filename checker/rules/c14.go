package rules

import (
	"fmt"
	"go/ast"
	"go/types"
	"sort"
	"strings"

	"golang.org/x/tools/go/ssa"

	"verif/checker/core"
)

func init() { Registry["C14"] = c14 }

// memoryOperands: SSA instruction kinds that read or write heap memory, and
// through which operand (go/ssa documentation). A kind listed here must have
// its operand's pointees checked before being classified local.
var memoryOperands = map[string][]string{
	"*ssa.Store":      {"Addr"},
	"*ssa.UnOp":       {"X"}, // load (MUL) and channel receive (ARROW)
	"*ssa.Send":       {"Chan"},
	"*ssa.MapUpdate":  {"Map"},
	"*ssa.Lookup":     {"X"},
	"*ssa.Range":      {"X"},    // map iteration
	"*ssa.Next":       {"Iter"}, // map iteration
	"*ssa.Select":     {"Chan"}, // every state's channel
	"*ssa.TypeAssert": {"X"},    // reads the interface's dynamic value
	"*ssa.Call":       {"Args"}, // builtin calls (append, copy, delete, clear, len/cap of map/chan, close) touch memory with no callee body
}

// noEffectKinds: kinds allowed to have no effect in the escape transfer function.
var noEffectKinds = map[string]string{
	"*ssa.Return":    "return values are read from the final graph, not transferred",
	"*ssa.Jump":      "control flow only",
	"*ssa.If":        "control flow only",
	"*ssa.BinOp":     "no binary operator produces or moves a pointer-like value",
	"*ssa.DebugRef":  "source-mapping annotation",
	"*ssa.RunDefers": "the effect of deferred calls is applied at the defer statements (the *ssa.Defer arm must have an effect: checked by this rule)",
}

func c14(c *core.Ctx, r *core.Report) {
	r.Explain("R14.local: in escape.instructionLocality every instruction kind that touches heap memory (checker-side table from the go/ssa semantics: Store.Addr, load/receive UnOp.X, Send.Chan, MapUpdate.Map, Lookup.X, Range.X, Next.Iter, Select states' Chan, TypeAssert.X, builtin Calls) must consult the escape graph (derefsAreLocal) on that operand; a kind whose arm is an unconditional `return nil` must be outside the table; uncovered kinds must reach the conservative non-nil default. R14.local.unop: on the SSA CFG of the UnOp arm every path that returns `local` without consulting the graph must have tested the operator (so a load or receive can never take it). R14.transfer: in escape.transferFunction every kind has a case with an effect (calls into the graph) or is in the reasoned no-effect table; an empty case or a missing case silently drops the instruction's escape effect. R14.go: on the SSA of transferFunction (helpers inlined with their calling context) the go arm and the defer arm call CallUnknown with operands whose backward slice reads Call.Args and Call.Value, and for every dynamic kind of callee value that can carry data (every ssa.Value implementer but Function, Builtin, Global, Const) the node of Call.Value is created on some path whose type tests on Call.Value succeed for that kind (partial evaluation of comma-ok assertions / type-switch arms).")
	r.NotDecided("that the escape graphs themselves over-approximate sharing (algorithmic, all programs x schedules); that CallUnknown / Call instantiation leak enough.")
	_, instrIface := c.NamedIface(core.SSAPath, "Instruction")
	if instrIface == nil {
		r.Fail("infra.anchor-unresolved", "R14|ssa.Instruction", "", "interface not found")
		return
	}
	// ---- R14.local
	d := c.FindDispatch("analysis/escape", "instructionLocality", core.SSAPath, "Instruction")
	if d == nil {
		r.Fail("infra.anchor-unresolved", "R14.local|analysis/escape.instructionLocality", "", "not found")
	} else {
		r.Analysed(d.Func)
		info := d.Pkg.TypesInfo
		// the function's final statement must return a non-nil rationale (conservative default)
		fd := d.Decl
		last := fd.Body.List[len(fd.Body.List)-1]
		conservative := false
		if rs, ok := last.(*ast.ReturnStmt); ok && len(rs.Results) == 1 && !info.Types[rs.Results[0]].IsNil() {
			conservative = true
		}
		r.Check(conservative, "R14.local", d.Func+"|default", c.Pos(last.Pos()), "kinds without a returning arm fall to a non-nil (non-local) default",
			"the fall-through default classifies unknown instructions as local")
		for _, im := range d.Impls {
			name := core.ShortType(im)
			key := d.Func + "|" + name
			cl := d.Switch.ClauseFor(im)
			ops, touches := memoryOperands[name]
			if cl == nil {
				if name == "*ssa.MultiConvert" || name == "*ssa.DebugRef" {
					r.Except("R14.local", key, c.Pos(d.Switch.Stmt.Pos()), "no arm: falls to the conservative non-local default (over-report only)")
				} else if conservative {
					r.OK("R14.local", key, c.Pos(d.Switch.Stmt.Pos()), "no arm: falls to the conservative non-local default")
				}
				continue
			}
			// does the arm consult the graph on the memory operand?
			consults := map[string]bool{}
			ast.Inspect(cl.Clause, func(n ast.Node) bool {
				call, ok := n.(*ast.CallExpr)
				if !ok {
					return true
				}
				if o := core.CalleeObj(call, info); o == nil || o.Name() != "derefsAreLocal" {
					return true
				}
				ast.Inspect(call, func(m ast.Node) bool {
					if se, ok := m.(*ast.SelectorExpr); ok {
						consults[se.Sel.Name] = true
					}
					return true
				})
				return true
			})
			uncond := core.BodyKind(cl.Clause.Body, info) == "return-only"
			switch {
			case touches && name == "*ssa.Call":
				// calls are checked through their callee's body, except builtins which have none
				handlesBuiltin := exprAny(cl.Clause, func(n ast.Node) bool {
					id, ok := n.(*ast.Ident)
					return ok && id.Name == "Builtin"
				})
				r.Check(handlesBuiltin && !uncond, "R14.local", key+"|builtin", c.Pos(cl.Clause.Pos()), "builtin calls are classified through the graph",
					"*ssa.Call is unconditionally local: calls to builtins that touch memory (append, copy, delete, clear, len/cap of map or chan, close) have no callee body in which the access could be classified, so a shared map/slice/channel touched by a builtin is never reported")
			case touches:
				all := true
				var missing []string
				for _, op := range ops {
					if !consults[op] {
						all = false
						missing = append(missing, op)
					}
				}
				r.Check(all, "R14.local", key, c.Pos(cl.Clause.Pos()), "arm consults the escape graph on "+strings.Join(ops, ","),
					"memory-touching kind is classified without consulting the graph on operand "+strings.Join(missing, ",")+": an access to shared memory is reported thread-local")
			case uncond || len(consults) == 0:
				r.OK("R14.local", key, c.Pos(cl.Clause.Pos()), "kind does not access heap memory itself (outside the memory table); unconditional local is sound")
			default:
				r.OK("R14.local", key, c.Pos(cl.Clause.Pos()), "non-memory kind additionally consults the graph (conservative)")
			}
		}
		r.Floor("R14.local", 30, "35 kinds + default")
		c14unop(c, r)
	}

	// ---- R14.transfer
	t := c.FindDispatch("analysis/escape", "functionAnalysisState.transferFunction", core.SSAPath, "Instruction")
	if t == nil {
		r.Fail("infra.anchor-unresolved", "R14.transfer|analysis/escape.functionAnalysisState.transferFunction", "", "not found")
		return
	}
	r.Analysed(t.Func)
	for _, im := range t.Impls {
		name := core.ShortType(im)
		key := t.Func + "|" + name
		cl := t.Switch.ClauseFor(im)
		why, noEffect := noEffectKinds[name]
		switch {
		case cl == nil && name == "*ssa.MultiConvert":
			r.Except("R14.transfer", key, c.Pos(t.Switch.Stmt.Pos()), multiConvertWhy)
		case cl == nil && noEffect:
			r.Except("R14.transfer", key, c.Pos(t.Switch.Stmt.Pos()), "no case; "+why)
		case cl == nil:
			r.Fail("R14.transfer", key, c.Pos(t.Switch.Stmt.Pos()), "instruction kind has no case: its escape effect is silently dropped (only a debug log), so objects it leaks stay Local")
		default:
			hasEffect := exprAny(cl.Clause, func(n ast.Node) bool {
				call, ok := n.(*ast.CallExpr)
				if !ok {
					return false
				}
				o := core.CalleeObj(call, t.Pkg.TypesInfo)
				f, ok := o.(*types.Func)
				if !ok || f.Pkg() == nil || f.Pkg().Path() != core.Module+"/analysis/escape" {
					return false
				}
				return true
			})
			switch {
			case hasEffect:
				r.OK("R14.transfer", key, c.Pos(cl.Clause.Pos()), "case applies an effect to the escape graph")
			case noEffect:
				r.Except("R14.transfer", key, c.Pos(cl.Clause.Pos()), why)
			default:
				r.Fail("R14.transfer", key, c.Pos(cl.Clause.Pos()), "case has no effect on the escape graph: the instruction's escape effect is dropped (for Defer: the deferred call's arguments and closure never leak, e.g. `x := &T{}; defer leak(x); return x` leaves x Local for the caller)")
			}
		}
	}
	r.Floor("R14.transfer", 35, "37 kinds")
	c14go(c, r, t)
	staleRule(c, r, "R14.stale")
	c14select(c, r)
	// ---- R14.underlying
	underlyingRule(c, r, "R14.underlying", func(t core.TypeTest) bool { return t.PkgRel == "analysis/escape" }, map[string]string{
		"analysis/escape.CanPointTo|a.(*types.Pointer)":                              "filter with a conservative default: a type that is not recognised as a pointer falls through to `return true` (edge allowed)",
		"analysis/escape.*escape.EscapeGraph.copyStruct|originalTp.(*types.Struct)": "the *types.Named case is tested first in the same if/else chain and unwrapped with Underlying()",
	}, "the instruction's pointees are not tracked: objects reachable through the named type stay Local")
}

// c14unop: path rule on the UnOp arm of instructionLocality.
func c14unop(c *core.Ctx, r *core.Report) {
	fn := c.Func("analysis/escape", "instructionLocality")
	if fn == nil {
		return
	}
	entries, ifBlocks := core.TypeCaseEntry(fn, "UnOp")
	if len(entries) == 0 {
		r.Fail("R14.local.unop", "analysis/escape.instructionLocality|arm", c.Pos(fn.Pos()), "no UnOp arm")
		return
	}
	consult := core.CallsNamed("derefsAreLocal")
	seen := map[string]bool{}
	for i, e := range entries {
		_ = ifBlocks[i]
		paths, _ := core.EnumeratePaths(e, func(b *ssa.BasicBlock) bool { return false }, 2000)
		for _, p := range paths {
			lastB := p.Blocks[len(p.Blocks)-1]
			ret, ok := lastB.Instrs[len(lastB.Instrs)-1].(*ssa.Return)
			if !ok || len(ret.Results) != 1 {
				continue
			}
			k, isConst := ret.Results[0].(*ssa.Const)
			if !isConst || !k.IsNil() {
				continue // returns a rationale or the result of derefsAreLocal
			}
			if core.PathHas(p, true, consult) {
				continue
			}
			desc := p.Describe()
			if seen[desc] {
				continue
			}
			seen[desc] = true
			testsOp := strings.Contains(desc, ".Op==") || strings.Contains(desc, ".Op!=")
			// type-based exclusion: the operand's *underlying* type is neither a pointer nor a channel,
			// so the UnOp cannot be a load or a receive
			if strings.Contains(desc, ".Underlying(),*types.Pointer)=false") && strings.Contains(desc, ".Underlying(),*types.Chan)=false") {
				testsOp = true
			}
			r.Check(testsOp, "R14.local.unop", "analysis/escape.instructionLocality|"+desc, c.Pos(ret.Pos()),
				"path classifies the UnOp local only after testing its operator or excluding pointer and channel operands by underlying type",
				"a UnOp is classified local on a path that never tests the operator nor consults the graph: a load or channel receive whose operand's static type is a *named* pointer/channel type (X.Type() is not a *types.Pointer/*types.Chan, its Underlying() is) is reported thread-local without looking at the escape graph")
		}
	}
	r.Floor("R14.local.unop", 1, "at least the arithmetic path")
}

func c14go(c *core.Ctx, r *core.Report, t *core.Dispatch) {
	// SSA-level, helpers inlined with their calling context: indifferent to how the arms are split into functions.
	fn := c.Func("analysis/escape", "functionAnalysisState.transferFunction")
	if fn == nil {
		r.Fail("infra.anchor-unresolved", "R14.go|transferFunction", "", "SSA function not found")
		return
	}
	_, valueIface := c.NamedIface(core.SSAPath, "Value")
	if valueIface == nil {
		r.Fail("infra.anchor-unresolved", "R14.go|ssa.Value", "", "interface not found")
		return
	}
	// dynamic kinds of a callee value that can carry data: every ssa.Value but functions, builtins, globals (already
	// leaked) and constants (nil)
	var kinds []types.Type
	for _, im := range c.Implementers(valueIface) {
		switch core.ShortType(im) {
		case "*ssa.Function", "*ssa.Builtin", "*ssa.Global", "*ssa.Const":
		default:
			kinds = append(kinds, im)
		}
	}
	if len(kinds) < 25 {
		r.Fail("infra.floor", "R14.go|value-kinds", "", fmt.Sprintf("only %d ssa.Value kinds found", len(kinds)))
	}
	for _, form := range []string{"Go", "Defer"} {
		arm := strings.ToLower(form) + "-arm"
		entries, _ := core.TypeCaseEntry(fn, form)
		if len(entries) == 0 {
			r.Fail("R14.go", t.Func+"|"+arm, c.Pos(fn.Pos()), "no arm for *ssa."+form+": the arguments and the closure/receiver of a "+strings.ToLower(form)+" statement never leak")
			continue
		}
		entry := entries[0]
		region := map[*ssa.BasicBlock]bool{}
		for _, b := range fn.Blocks {
			if entry.Dominates(b) {
				region[b] = true
			}
		}
		isCallTo := func(name string) func(ssa.Instruction) bool {
			return func(ins ssa.Instruction) bool {
				call, ok := ins.(*ssa.Call)
				if !ok {
					return false
				}
				sc := call.Call.StaticCallee()
				return sc != nil && sc.Name() == name
			}
		}
		var miss []string
		unknowns := core.InlinedInstrsFrom(c, fn, region, c.Depth(2), isCallTo("CallUnknown"))
		if len(unknowns) == 0 {
			miss = append(miss, "no CallUnknown")
		}
		readsArgs, readsValue := false, false
		for _, ii := range unknowns {
			call := ii.Ins.(*ssa.Call)
			if len(call.Call.Args) < 2 {
				continue
			}
			sl := ii.Slice(call.Call.Args[1])
			readsArgs = readsArgs || sl.HasSuffix("Call", "Args")
			readsValue = readsValue || sl.HasSuffix("Call", "Value")
		}
		if len(unknowns) > 0 && !readsArgs {
			miss = append(miss, "Call.Args does not reach CallUnknown")
		}
		if len(unknowns) > 0 && !readsValue {
			miss = append(miss, "Call.Value (closure/receiver) does not reach CallUnknown")
		}
		// kinds of callee value for which the node of Call.Value is created
		var targets []core.InlinedInstr
		for _, ii := range core.InlinedInstrsFrom(c, fn, region, c.Depth(2), isCallTo("ValueNode")) {
			call := ii.Ins.(*ssa.Call)
			for _, a := range call.Call.Args {
				if ii.PathOf(a) == "Call.Value" {
					targets = append(targets, ii)
				}
			}
		}
		var lost []string
		for _, k := range kinds {
			ok := false
			for _, ti := range targets {
				if ti.ReachableForKind(entry, "Call.Value", k) {
					ok = true
				}
			}
			if !ok {
				lost = append(lost, core.ShortType(k))
			}
		}
		sort.Strings(lost)
		if len(lost) > 0 && readsValue {
			miss = append(miss, "the callee value is not leaked when it is a "+strings.Join(lost, ", ")+" (e.g. `func spawn(f func()) { "+strings.ToLower(form)+" f() }`)")
		}
		sort.Strings(miss)
		r.Check(len(miss) == 0, "R14.go", t.Func+"|"+arm, c.Pos(entry.Instrs[0].Pos()),
			fmt.Sprintf("%s arm leaks every tracked argument and, for each of the %d data-carrying kinds of callee value, the callee value through CallUnknown", strings.ToLower(form), len(kinds)),
			fmt.Sprintf("%s arm incomplete (%s): objects handed to the %s stay Local", strings.ToLower(form), strings.Join(miss, "; "), map[string]string{"Go": "new goroutine", "Defer": "deferred call"}[form]))
	}
}
