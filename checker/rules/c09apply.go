package rules

import (
	"fmt"
	"go/token"
	"go/types"
	"sort"
	"strings"

	"golang.org/x/tools/go/ssa"

	"verif/checker/core"
)

// c09apply (R09.apply): a listed flow of a summary is applied whenever its
// positions exist. In the by-position edge writers (addParamEdgeByPos,
// addReturnEdgeByPos; helpers inlined) the writes of the edge stores are control
// dependent only on: comparisons of integers (positions against lengths), nil
// tests, the ok flag of a map lookup, and loop headers. A predicate of the TYPE
// or kind of the parameter ("passed by value, cannot carry data back") drops
// listed flows: a struct or array passed by value can hold slices and pointers,
// and the table is the specification.
func c09apply(c *core.Ctx, r *core.Report) {
	r.Explain("R09.apply: in SummaryGraph.addParamEdgeByPos / addReturnEdgeByPos (helpers inlined) every write of an edge store is control dependent only on integer comparisons, nil tests, comma-ok flags of map lookups and loop headers.")
	headers := map[*ssa.BasicBlock]bool{}
	seenFn := map[*ssa.Function]bool{}
	isHeader := func(b *ssa.BasicBlock) bool {
		if f := b.Parent(); !seenFn[f] {
			seenFn[f] = true
			for _, l := range core.Loops(f) {
				headers[l.Header] = true
			}
		}
		return headers[b]
	}
	allowed := func(v ssa.Value) bool {
		switch x := v.(type) {
		case *ssa.BinOp:
			switch x.Op {
			case token.EQL, token.NEQ, token.LSS, token.LEQ, token.GTR, token.GEQ:
			default:
				return false
			}
			for _, o := range []ssa.Value{x.X, x.Y} {
				if k, isC := o.(*ssa.Const); isC && k.IsNil() {
					return true
				}
			}
			b, ok := types.Unalias(x.X.Type()).Underlying().(*types.Basic)
			return ok && b.Info()&types.IsInteger != 0
		case *ssa.Extract:
			if lk, ok := x.Tuple.(*ssa.Lookup); ok && lk.CommaOk && x.Index == 1 {
				return true
			}
		}
		return false
	}
	for _, name := range []string{"SummaryGraph.addParamEdgeByPos", "SummaryGraph.addReturnEdgeByPos"} {
		fn := c.Func("analysis/dataflow", name)
		if fn == nil {
			r.Fail("infra.anchor-unresolved", "R09.apply|"+name, "", "not found")
			continue
		}
		n := 0
		var bad []string
		for _, ii := range core.InlinedInstrs(c, fn, c.Depth(2), func(ins ssa.Instruction) bool {
			mu, ok := ins.(*ssa.MapUpdate)
			if !ok {
				return false
			}
			m, ok := types.Unalias(mu.Map.Type()).Underlying().(*types.Map)
			return ok && strings.Contains(m.Elem().String(), "EdgeInfo")
		}) {
			n++
			for _, cond := range ii.ControlConds() {
				iff := cond.Ins.(*ssa.If)
				if isHeader(iff.Block()) || allowed(iff.Cond) {
					continue
				}
				pos := iff.Cond.Pos()
				for _, x := range iff.Block().Instrs {
					if !pos.IsValid() && x.Pos().IsValid() {
						pos = x.Pos()
					}
				}
				bad = append(bad, c.Pos(pos))
			}
		}
		if n == 0 {
			r.Fail("infra.anchor-unresolved", "R09.apply|"+name+"|edge-writes", c.Pos(fn.Pos()), "no write of an edge store found")
			continue
		}
		sort.Strings(bad)
		bad = dedupStrings(bad)
		r.Check(len(bad) == 0, "R09.apply", "analysis/dataflow."+name+"|listed-flow-applied-when-positions-exist", c.Pos(fn.Pos()),
			fmt.Sprintf("the %d edge-store writes depend only on position range checks, nil tests and lookup flags", n),
			"a listed flow is applied only under a condition that is not a position range check, a nil test or a lookup flag: "+strings.Join(bad, ", ")+" - flows the summary table lists (e.g. into a struct or array parameter passed by value that holds slices or pointers) are silently dropped")
	}
}
