package rules

import (
	"fmt"
	"go/ast"
	"go/constant"
	"go/token"
	"go/types"
	"sort"
	"strings"

	"golang.org/x/tools/go/ssa"

	"verif/checker/core"
)

func init() { Registry["C08"] = c08 }

// operandExceptions: operand fields the dataflow transfer functions are
// allowed not to read, with the reason.
var operandExceptions = map[string]string{
	"MakeChan.Size":    "allocation size: an integer that does not flow into the channel's contents",
	"MakeMap.Reserve":  "allocation hint: an integer that does not flow into the map's contents",
	"MakeSlice.Len":    "allocation size: does not flow into the slice's contents",
	"MakeSlice.Cap":    "allocation size: does not flow into the slice's contents",
	"Slice.Low":        "slice bound: an integer index, the sliced data comes from Slice.X",
	"Slice.High":       "slice bound: an integer index, the sliced data comes from Slice.X",
	"Slice.Max":        "slice bound: an integer index, the sliced data comes from Slice.X",
	"Panic.X":          "panics are outside the documented fragment (C01: no recover); DoPanic is a documented no-op",
	"DebugRef.X":       "DebugRef is a source-mapping annotation; ignored consistently via isInstrIgnored",
	"MakeClosure.Fn":   "the closure's function is read when linking (findClosureSummary), not by the transfer function",
	"Defer.DeferStack": "only set for range-over-func defers (go1.23 rangefunc); not a data operand of the deferred call",
}

// instrHandlers resolves, for every case of lang.InstrSwitch, the name of the
// InstrOp method called and checks its parameter type equals the case type.
func instrHandlers(c *core.Ctx, r *core.Report, rule string) map[string]string {
	res := map[string]string{}
	d := c.FindDispatch("analysis/lang", "InstrSwitch", core.SSAPath, "Instruction")
	if d == nil {
		r.Fail("infra.anchor-unresolved", rule+"|analysis/lang.InstrSwitch", "", "instruction dispatcher not found")
		return res
	}
	r.Analysed(d.Func)
	_, opIface := c.NamedIface(core.Module+"/analysis/lang", "InstrOp")
	for _, im := range d.Impls {
		name := core.ShortType(im)
		key := d.Func + "|" + name
		cl := d.Switch.ClauseFor(im)
		if cl == nil {
			if name == "*ssa.MultiConvert" {
				r.Except(rule, key, c.Pos(d.Switch.Stmt.Pos()), multiConvertWhy)
			} else {
				r.Fail(rule, key, c.Pos(d.Switch.Stmt.Pos()), "instruction kind has no case in the transfer dispatch: its effect on data flow is dropped (or the analysis panics)")
			}
			continue
		}
		if len(cl.Clause.Body) == 0 {
			if name == "*ssa.DebugRef" {
				r.Except(rule, key, c.Pos(cl.Clause.Pos()), operandExceptions["DebugRef.X"])
			} else {
				r.Fail(rule, key, c.Pos(cl.Clause.Pos()), "empty case: the instruction kind is silently ignored by every InstrOp visitor")
			}
			continue
		}
		// the body must call a method of the visitor whose parameter type is the case type
		ok := false
		for _, o := range core.CallsIn(cl.Clause.Body, d.Pkg.TypesInfo) {
			fn, isFn := o.(*types.Func)
			if !isFn {
				continue
			}
			sig := fn.Type().(*types.Signature)
			if sig.Recv() == nil || sig.Params().Len() != 1 || opIface == nil {
				continue
			}
			if !types.Identical(sig.Params().At(0).Type(), im) {
				continue
			}
			// must be a method of InstrOp
			for i := 0; i < opIface.NumMethods(); i++ {
				if opIface.Method(i) == fn {
					ok = true
					res[strings.TrimPrefix(name, "*ssa.")] = fn.Name()
				}
			}
		}
		r.Check(ok, rule, key, c.Pos(cl.Clause.Pos()), "case calls the InstrOp method taking "+name,
			"case does not call an InstrOp method whose parameter is "+name+": the instruction is routed to the wrong handler or to none")
	}
	return res
}

func c08(c *core.Ctx, r *core.Report) {
	c08tuples(c, r)
	c08fixpoint(c, r)
	apGrammarRule(c, r, "R08.apgrammar", "analysis/dataflow")
	r.Explain("R08.dispatch: lang.InstrSwitch has, for every ssa.Instruction implementer, a case that calls the InstrOp method whose parameter type is that kind (DebugRef empty by design, MultiConvert by build mode).")
	r.Explain("R08.operands: for every dispatched kind T, every operand field of T (table extracted from go/ssa's own Operands methods as compiled into Argot) is read on a value of type *ssa.T (resp. ssa.CallCommon, ssa.SelectState) inside the call-graph cone of the code responsible for T: its Do<T> handler on dataflow.IntraAnalysisState, the functions called by the makeEdgesAtInstruction case covering T, and for Defer the RunDefers simulation; reasoned exceptions are listed.")
	r.Explain("R08.builtins: isHandledBuiltinCall and doBuiltinCall are partially evaluated over (builtin name x feasible SSA arity); handled => the handler returns true on every path (otherwise the call gets neither a builtin model nor call edges); every universe builtin that go/ssa keeps as a call is classified by name.")
	r.Explain("R08.monotone: the abstract state is grow-only (no delete on AbstractValue.marks/accessMarks, element writes are `true` or fresh maps, MarkedValues slots are only filled when nil, mergeInto only adds), and Pre joins every entry of instrPrev whose construction ranges over block predecessors, the in-block predecessor and the RunDefers reachability case.")
	r.Explain("R08.sinks: makeEdgesAtInstruction has cases for call instructions (via the ssa.CallInstruction interface: Call, Go, Defer), Return, MakeClosure, Store and If, each calling an edge builder.")
	r.NotDecided("that computed marks equal SSA def-use reachability for every function (needs an executed or symbolic oracle); 'read' is weaker than 'transferred'.")

	handlers := instrHandlers(c, r, "R08.dispatch")
	r.Floor("R08.dispatch", 36, "36 cases + MultiConvert exception measured")

	// ---- R08.operands
	tab, probs := c.OperandTable()
	for _, p := range probs {
		r.Fail("infra.operand-table", p, "", "cannot extract go/ssa operand table")
	}
	g := c.RepoGraph()
	// responsible roots per kind
	state := "IntraAnalysisState."
	edgeRoots := map[string][]*ssa.Function{} // kind -> functions called from makeEdgesAtInstruction case
	callInstrKinds := []string{"Call", "Go", "Defer"}
	if d := c.FindDispatch("analysis/dataflow", state+"makeEdgesAtInstruction", core.SSAPath, "Instruction"); d != nil {
		r.Analysed(d.Func)
		_, ci := c.NamedIface(core.SSAPath, "CallInstruction")
		want := map[string]bool{"CallInstruction": false, "*ssa.Return": false, "*ssa.MakeClosure": false, "*ssa.Store": false, "*ssa.If": false}
		for _, cl := range d.Switch.Clauses {
			var fns []*ssa.Function
			for _, o := range core.CallsIn(cl.Clause.Body, d.Pkg.TypesInfo) {
				if f, ok := o.(*types.Func); ok {
					if sf := c.Prog.FuncValue(f); sf != nil {
						fns = append(fns, sf)
					}
				}
			}
			for _, t := range cl.Types {
				if t == nil {
					continue
				}
				if it, ok := t.Underlying().(*types.Interface); ok && ci != nil && types.Identical(it, ci) {
					want["CallInstruction"] = len(fns) > 0
					for _, k := range callInstrKinds {
						edgeRoots[k] = append(edgeRoots[k], fns...)
					}
					continue
				}
				n := core.ShortType(t)
				if _, ok := want[n]; ok {
					want[n] = len(fns) > 0
				}
				edgeRoots[strings.TrimPrefix(n, "*ssa.")] = append(edgeRoots[strings.TrimPrefix(n, "*ssa.")], fns...)
			}
		}
		var ws []string
		for k := range want {
			ws = append(ws, k)
		}
		sort.Strings(ws)
		for _, k := range ws {
			r.Check(want[k], "R08.sinks", d.Func+"|"+k, c.Pos(d.Switch.Stmt.Pos()), "edge construction has a case for "+k+" that calls an edge builder",
				"edge construction has no (non-empty) case for "+k+": flows into this sink-capable instruction shape create no summary edge")
		}
	} else {
		r.Fail("infra.anchor-unresolved", "R08.sinks|analysis/dataflow."+state+"makeEdgesAtInstruction", "", "edge construction dispatcher not found")
	}
	r.Floor("R08.sinks", 5, "five sink-capable shapes")

	var kinds []string
	for k := range handlers {
		kinds = append(kinds, k)
	}
	sort.Strings(kinds)
	nObl := 0
	for _, k := range kinds {
		ops := tab[k]
		var roots []*ssa.Function
		h := c.Func("analysis/dataflow", state+handlers[k])
		if h == nil {
			r.Fail("infra.anchor-unresolved", "R08.operands|handler|"+k, "", "IntraAnalysisState has no method "+handlers[k])
			continue
		}
		roots = append(roots, h)
		roots = append(roots, edgeRoots[k]...)
		if k == "Defer" {
			roots = append(roots, c.Func("analysis/dataflow", state+"DoRunDefers"))
		}
		cone := g.Cone(true, roots...)
		reads := core.FieldReads(cone)
		r.Analysed("analysis/dataflow." + state + handlers[k])
		for _, op := range ops {
			nObl++
			key := "analysis/dataflow." + state + handlers[k] + "|" + k + "." + op
			var want string
			switch {
			case strings.HasPrefix(op, "Call."):
				want = "CallCommon." + strings.TrimPrefix(op, "Call.")
			case strings.HasPrefix(op, "States."):
				want = "SelectState." + strings.TrimPrefix(op, "States.")
			default:
				want = k + "." + op
			}
			if fns, ok := reads[want]; ok {
				r.OK("R08.operands", key, "", fmt.Sprintf("%s read in %s (cone of %d functions)", want, core.ShortFunc(fns[0]), len(cone)))
			} else if why, ok := operandExceptions[k+"."+op]; ok {
				r.Except("R08.operands", key, "", why)
			} else {
				r.Fail("R08.operands", key, c.Pos(h.Pos()), fmt.Sprintf("operand %s.%s is never read by the code responsible for %s (handler %s + edge builders; cone of %d functions): data flowing through this operand is dropped", k, op, k, handlers[k], len(cone)))
			}
		}
	}
	r.Floor("R08.operands", 45, "~55 operand fields measured")

	c08builtins(c, r)
	c08monotone(c, r)
}

// ---- R08.builtins: partial evaluation

type tri int

const (
	tFalse tri = iota
	tTrue
	tUnknown
)

type peEnv struct {
	info    *types.Info
	name    string
	arity   int
	handled tri // value assumed for calls to isHandledBuiltinCall
}

func (e *peEnv) cond(x ast.Expr) tri {
	switch v := ast.Unparen(x).(type) {
	case *ast.UnaryExpr:
		if v.Op == token.NOT {
			switch e.cond(v.X) {
			case tTrue:
				return tFalse
			case tFalse:
				return tTrue
			}
			return tUnknown
		}
	case *ast.BinaryExpr:
		switch v.Op {
		case token.LAND:
			a, b := e.cond(v.X), e.cond(v.Y)
			if a == tFalse || b == tFalse {
				return tFalse
			}
			if a == tTrue && b == tTrue {
				return tTrue
			}
			return tUnknown
		case token.LOR:
			a, b := e.cond(v.X), e.cond(v.Y)
			if a == tTrue || b == tTrue {
				return tTrue
			}
			if a == tFalse && b == tFalse {
				return tFalse
			}
			return tUnknown
		case token.NEQ, token.EQL:
			// X.Value != nil : a builtin call always has a non-nil Value
			if tv := e.info.Types[v.Y]; tv.IsNil() {
				if se, ok := ast.Unparen(v.X).(*ast.SelectorExpr); ok && se.Sel.Name == "Value" {
					if v.Op == token.NEQ {
						return tTrue
					}
					return tFalse
				}
			}
			// len(X.Args) == N
			if call, ok := ast.Unparen(v.X).(*ast.CallExpr); ok {
				if id, ok := call.Fun.(*ast.Ident); ok && id.Name == "len" && len(call.Args) == 1 {
					if se, ok := ast.Unparen(call.Args[0]).(*ast.SelectorExpr); ok && se.Sel.Name == "Args" {
						if tv := e.info.Types[v.Y]; tv.Value != nil {
							n, _ := constant.Int64Val(constant.ToInt(tv.Value))
							eq := int64(e.arity) == n
							if (v.Op == token.EQL) == eq {
								return tTrue
							}
							return tFalse
						}
					}
				}
			}
			// X.IsInvoke(): a builtin is never invoked through an interface
		}
	case *ast.CallExpr:
		if id, ok := v.Fun.(*ast.Ident); ok && id.Name == "isHandledBuiltinCall" {
			return e.handled
		}
		if se, ok := v.Fun.(*ast.SelectorExpr); ok && se.Sel.Name == "IsInvoke" {
			return tFalse
		}
	}
	return tUnknown
}

// eval returns the set of boolean results {false?,true?} the statement list
// can return, and whether control can fall through.
func (e *peEnv) eval(list []ast.Stmt) (canFalse, canTrue, falls bool) {
	falls = true
	for _, st := range list {
		if !falls {
			break
		}
		switch s := st.(type) {
		case *ast.ReturnStmt:
			if len(s.Results) == 1 {
				if id, ok := ast.Unparen(s.Results[0]).(*ast.Ident); ok && (id.Name == "true" || id.Name == "false") {
					if id.Name == "true" {
						canTrue = true
					} else {
						canFalse = true
					}
					return canFalse, canTrue, false
				}
			}
			// unknown return expression
			return true, true, false
		case *ast.IfStmt:
			cv := e.cond(s.Cond)
			var f1, t1, fall1, f2, t2, fall2 bool
			fall1, fall2 = true, true
			if cv != tFalse {
				f1, t1, fall1 = e.eval(s.Body.List)
			}
			if cv != tTrue {
				switch el := s.Else.(type) {
				case *ast.BlockStmt:
					f2, t2, fall2 = e.eval(el.List)
				case *ast.IfStmt:
					f2, t2, fall2 = e.eval([]ast.Stmt{el})
				}
			}
			switch cv {
			case tTrue:
				canFalse, canTrue, falls = canFalse || f1, canTrue || t1, fall1
			case tFalse:
				canFalse, canTrue, falls = canFalse || f2, canTrue || t2, fall2
			default:
				canFalse, canTrue, falls = canFalse || f1 || f2, canTrue || t1 || t2, fall1 || fall2
			}
		case *ast.SwitchStmt:
			// switch X.Name() { case "a", "b": ... }
			var chosen, def *ast.CaseClause
			isNameSwitch := false
			if call, ok := s.Tag.(*ast.CallExpr); ok {
				switch f := call.Fun.(type) {
				case *ast.SelectorExpr:
					isNameSwitch = strings.HasSuffix(f.Sel.Name, "Name")
				case *ast.Ident:
					isNameSwitch = strings.HasSuffix(f.Name, "Name")
				}
			}
			if !isNameSwitch {
				return true, true, true
			}
			for _, cs := range s.Body.List {
				cc := cs.(*ast.CaseClause)
				if cc.List == nil {
					def = cc
				}
				for _, x := range cc.List {
					if tv := e.info.Types[x]; tv.Value != nil && tv.Value.Kind() == constant.String && constant.StringVal(tv.Value) == e.name {
						chosen = cc
					}
				}
			}
			if chosen == nil {
				chosen = def
			}
			if chosen != nil {
				f, t, fl := e.eval(chosen.Body)
				canFalse, canTrue, falls = canFalse || f, canTrue || t, fl
			}
		case *ast.BlockStmt:
			f, t, fl := e.eval(s.List)
			canFalse, canTrue, falls = canFalse || f, canTrue || t, fl
		case *ast.ForStmt, *ast.RangeStmt:
			// loop bodies of these functions contain no returns; verify
			hasRet := false
			ast.Inspect(s, func(n ast.Node) bool {
				if _, ok := n.(*ast.ReturnStmt); ok {
					hasRet = true
				}
				return true
			})
			if hasRet {
				canFalse, canTrue = true, true
			}
		}
	}
	return
}

// builtinArities: arities with which go/ssa emits a call to the builtin
// (varargs are packed into one slice argument; make/new/panic are lowered to
// instructions and never appear as calls).
var builtinArities = map[string][]int{
	"append": {2}, "cap": {1}, "clear": {1}, "close": {1}, "complex": {2}, "copy": {2}, "delete": {2},
	"imag": {1}, "len": {1}, "max": {1, 2, 3, 4}, "min": {1, 2, 3, 4}, "print": {0, 1, 2, 3}, "println": {0, 1, 2, 3},
	"real": {1}, "recover": {0}, "ssa:wrapnilchk": {3},
}

var loweredBuiltins = map[string]bool{"make": true, "new": true, "panic": true}

func c08builtins(c *core.Ctx, r *core.Report) {
	isH, p := c.Decl("analysis/dataflow", "isHandledBuiltinCall")
	doB, _ := c.Decl("analysis/dataflow", "doBuiltinCall")
	if isH == nil || doB == nil {
		r.Fail("infra.anchor-unresolved", "R08.builtins|analysis/dataflow.isHandledBuiltinCall/doBuiltinCall", "", "builtin predicate/handler pair not found")
		return
	}
	r.Analysed("analysis/dataflow.isHandledBuiltinCall")
	r.Analysed("analysis/dataflow.doBuiltinCall")
	isHfn, doBfn := c.Func("analysis/dataflow", "isHandledBuiltinCall"), c.Func("analysis/dataflow", "doBuiltinCall")
	if isHfn == nil || doBfn == nil {
		r.Fail("infra.anchor-unresolved", "R08.builtins|SSA", "", "SSA functions not found")
		return
	}
	_ = p
	// universe
	var names []string
	for _, n := range types.Universe.Names() {
		if _, ok := types.Universe.Lookup(n).(*types.Builtin); ok && !loweredBuiltins[n] {
			names = append(names, n)
		}
	}
	names = append(names, "ssa:wrapnilchk")
	sort.Strings(names)
	for _, n := range names {
		ar, ok := builtinArities[n]
		if !ok {
			r.Fail("R08.builtins", "analysis/dataflow.isHandledBuiltinCall|"+n+"|arity-table", "", "builtin "+n+" of this toolchain has no entry in the checker's arity table: update the table")
			continue
		}
		for _, a := range ar {
			key := fmt.Sprintf("analysis/dataflow.doBuiltinCall|%s/%d", n, a)
			oracle := builtinOracle(n, a)
			ht, hf := core.BoolResults(c, isHfn, 0, oracle)
			dt, df := core.BoolResults(c, doBfn, 0, oracle)
			switch {
			case ht && !hf && dt && !df:
				r.OK("R08.builtins", key, c.Pos(doB.Pos()), "handled and modelled on every path")
			case !ht && !dt:
				r.OK("R08.builtins", key, c.Pos(doB.Pos()), "not handled as builtin: treated as an ordinary call (call edges are built)")
			case ht && df:
				r.Fail("R08.builtins", key, c.Pos(doB.Pos()), fmt.Sprintf("isHandledBuiltinCall(%s, %d args) can be true while doBuiltinCall can return false: the call is neither modelled as a builtin nor given call-site edges (makeEdgesAtCallSite returns early), so data through it is lost", n, a))
			case !ht && dt:
				r.Fail("R08.builtins", key, c.Pos(doB.Pos()), "handler models a builtin the predicate does not admit")
			default:
				r.Fail("R08.builtins", key, c.Pos(doB.Pos()), fmt.Sprintf("undecided: predicate results {false:%v true:%v}, handler {false:%v true:%v}", hf, ht, df, dt))
			}
		}
	}
	r.Floor("R08.builtins", 20, "16 builtin names x arities")
	// R08.builtins.bytype: the name that selects the builtin model must be the name of an *ssa.Builtin,
	// not the name of an arbitrary ssa.Value (user functions, parameters and variables can be named like builtins)
	for _, fname := range []string{"isHandledBuiltinCall", "doBuiltinCall"} {
		fn := c.Func("analysis/dataflow", fname)
		if fn == nil {
			continue
		}
		nCmp, bad := 0, 0
		for _, b := range fn.Blocks {
			for _, ins := range b.Instrs {
				bo, ok := ins.(*ssa.BinOp)
				if !ok || bo.Op != token.EQL {
					continue
				}
				var str ssa.Value
				if k, isK := bo.Y.(*ssa.Const); isK && k.Value != nil && k.Value.Kind() == constant.String {
					str = bo.X
				} else if k, isK := bo.X.(*ssa.Const); isK && k.Value != nil && k.Value.Kind() == constant.String {
					str = bo.Y
				}
				if str == nil {
					continue
				}
				k := bo.Y
				if _, isK := k.(*ssa.Const); !isK {
					k = bo.X
				}
				name := constant.StringVal(k.(*ssa.Const).Value)
				if _, isBuiltinName := builtinArities[name]; !isBuiltinName {
					continue
				}
				nCmp++
				if !fromBuiltinName(c, str, 0) {
					bad++
				}
			}
		}
		r.Check(nCmp > 0 && bad == 0, "R08.builtins.bytype", "analysis/dataflow."+fname+"|name-of-ssa.Builtin", c.Pos(fn.Pos()),
			fmt.Sprintf("all %d comparisons with builtin names are on the name of a value type-tested as *ssa.Builtin", nCmp),
			fmt.Sprintf("%d of %d comparisons with builtin names are on Value.Name() of an arbitrary value: a user function (or parameter, variable) named like a builtin is modelled as that builtin, gets no call edges, and flows through it are lost", bad, nCmp))
	}
}

// fromBuiltinName: the string value originates from (*ssa.Builtin).Name (possibly through a repository helper or a phi with "").
func fromBuiltinName(c *core.Ctx, v ssa.Value, depth int) bool {
	if depth > 6 {
		return false
	}
	switch x := v.(type) {
	case *ssa.Call:
		if sc := x.Call.StaticCallee(); sc != nil {
			if sc.Name() == "Name" && sc.Signature.Recv() != nil && core.SSATypeName(sc.Signature.Recv().Type()) == "Builtin" {
				return true
			}
			if c.IsRepoFunc(sc) && sc.Blocks != nil {
				// helper: every non-constant return value comes from (*ssa.Builtin).Name
				okAll, n := true, 0
				for _, b := range sc.Blocks {
					if ret, ok := b.Instrs[len(b.Instrs)-1].(*ssa.Return); ok && len(ret.Results) == 1 {
						if k, isK := ret.Results[0].(*ssa.Const); isK && k.Value != nil && constant.StringVal(k.Value) == "" {
							continue
						}
						n++
						if !fromBuiltinName(c, ret.Results[0], depth+1) {
							okAll = false
						}
					}
				}
				return okAll && n > 0
			}
		}
	case *ssa.Phi:
		n := 0
		for _, e := range x.Edges {
			if k, isK := e.(*ssa.Const); isK && k.Value != nil && k.Value.Kind() == constant.String && constant.StringVal(k.Value) == "" {
				continue
			}
			n++
			if !fromBuiltinName(c, e, depth+1) {
				return false
			}
		}
		return n > 0
	}
	return false
}

func c08monotone(c *core.Ctx, r *core.Report) {
	p := c.Pkg("analysis/dataflow")
	if p == nil {
		r.Fail("infra.anchor-unresolved", "R08.monotone|analysis/dataflow", "", "package not found")
		return
	}
	info := p.TypesInfo
	isStateField := func(e ast.Expr) (string, bool) {
		se, ok := ast.Unparen(e).(*ast.SelectorExpr)
		if !ok {
			return "", false
		}
		sel := info.Selections[se]
		if sel == nil {
			return "", false
		}
		v, ok := sel.Obj().(*types.Var)
		if !ok || !v.IsField() {
			return "", false
		}
		recv := sel.Recv()
		if pt, ok := recv.(*types.Pointer); ok {
			recv = pt.Elem()
		}
		n, ok := recv.(*types.Named)
		if !ok {
			return "", false
		}
		full := n.Obj().Name() + "." + v.Name()
		switch full {
		case "AbstractValue.marks", "AbstractValue.accessMarks", "FlowInformation.MarkedValues":
			return full, true
		}
		return "", false
	}
	// rootField: a.marks, a.accessMarks[p], b.accessMarks[""] ...
	var rootField func(e ast.Expr) (string, int, bool)
	rootField = func(e ast.Expr) (string, int, bool) {
		switch x := ast.Unparen(e).(type) {
		case *ast.IndexExpr:
			n, d, ok := rootField(x.X)
			return n, d + 1, ok
		case *ast.SelectorExpr:
			n, ok := isStateField(x)
			return n, 0, ok
		case *ast.Ident:
			// local alias such as bMarks := b.accessMarks[path]
			return "", 0, false
		}
		return "", 0, false
	}
	nW := 0
	for _, f := range p.Syntax {
		fname := c.Fset.Position(f.Pos()).Filename
		if strings.HasSuffix(fname, "_test.go") {
			continue
		}
		for _, d := range f.Decls {
			fd, ok := d.(*ast.FuncDecl)
			if !ok || fd.Body == nil {
				continue
			}
			fname := fd.Name.Name
			var stack []ast.Node
			ast.Inspect(fd.Body, func(n ast.Node) bool {
				if n == nil {
					stack = stack[:len(stack)-1]
					return true
				}
				stack = append(stack, n)
				switch s := n.(type) {
				case *ast.CallExpr:
					if id, ok := s.Fun.(*ast.Ident); ok && (id.Name == "delete" || id.Name == "clear") {
						if _, isB := info.Uses[id].(*types.Builtin); isB && len(s.Args) > 0 {
							if name, _, ok := rootField(s.Args[0]); ok {
								nW++
								r.Fail("R08.monotone.grow", "analysis/dataflow."+fname+"|"+id.Name+"|"+name, c.Pos(s.Pos()), "the abstract state loses marks ("+id.Name+" on "+name+"): origins attached at a point would not be attached at later points")
							}
						}
					}
				case *ast.AssignStmt:
					for i, lhs := range s.Lhs {
						name, depth, ok := rootField(lhs)
						if !ok {
							continue
						}
						nW++
						key := fmt.Sprintf("analysis/dataflow.%s|write|%s/depth%d", fname, name, depth)
						var rhs ast.Expr
						if len(s.Rhs) == len(s.Lhs) {
							rhs = s.Rhs[i]
						}
						switch {
						case name == "FlowInformation.MarkedValues" && depth == 1:
							// slot must be filled only when nil: enclosing `if X == nil` or preceding `if v := slot; v != nil { ... return }`
							guard := false
							for _, anc := range stack {
								if ifs, ok := anc.(*ast.IfStmt); ok {
									if be, ok := ifs.Cond.(*ast.BinaryExpr); ok && be.Op == token.EQL && info.Types[be.Y].IsNil() && s.Pos() >= ifs.Body.Pos() && s.End() <= ifs.Body.End() {
										guard = true
									}
								}
								if blk, ok := anc.(*ast.BlockStmt); ok {
									for _, st := range blk.List {
										if st.Pos() >= s.Pos() {
											break
										}
										if ifs, ok := st.(*ast.IfStmt); ok && endsInExit(ifs.Body) {
											if be, ok := ifs.Cond.(*ast.BinaryExpr); ok && be.Op == token.NEQ && info.Types[be.Y].IsNil() {
												guard = true
											}
										}
									}
								}
							}
							r.Check(guard, "R08.monotone.grow", key, c.Pos(s.Pos()), "MarkedValues slot is filled only when nil",
								"MarkedValues slot is overwritten without a nil guard: marks accumulated at this point are discarded")
						case depth == 0:
							r.Fail("R08.monotone.grow", key, c.Pos(s.Pos()), "whole-map reassignment of "+name+" outside a constructor literal discards marks")
						default:
							okv := false
							if id, ok := ast.Unparen(rhs).(*ast.Ident); ok && id.Name == "true" {
								okv = true
							}
							if cl, ok := ast.Unparen(rhs).(*ast.CompositeLit); ok {
								if _, isMap := info.TypeOf(cl).Underlying().(*types.Map); isMap {
									// fresh inner map is fine only when the key was absent: require an enclosing/!ok guard
									okv = true
								}
							}
							if call, ok := ast.Unparen(rhs).(*ast.CallExpr); ok {
								if se, ok := call.Fun.(*ast.SelectorExpr); ok && se.Sel.Name == "Clone" {
									okv = true
								}
							}
							if okv && depth == 1 && name == "AbstractValue.accessMarks" {
								// replacing a whole inner map must be guarded by key absence
								guard := false
								for _, anc := range stack {
									if ifs, ok := anc.(*ast.IfStmt); ok && s.Pos() >= ifs.Body.Pos() && s.End() <= ifs.Body.End() {
										if exprAny(ifs.Cond, func(m ast.Node) bool {
											u, ok := m.(*ast.UnaryExpr)
											return ok && u.Op == token.NOT
										}) {
											guard = true
										}
									}
								}
								okv = guard
							}
							r.Check(okv, "R08.monotone.grow", key, c.Pos(s.Pos()), "element write adds a mark (true / fresh inner map under key-absence guard)",
								"element write to "+name+" is not of growing shape (value is not `true`, or an inner map is replaced without a key-absence guard)")
						}
					}
				}
				return true
			})
		}
	}
	r.Floor("R08.monotone.grow", 6, "add, mergeInto, AddMark, Pre write sites measured")

	// Pre joins every predecessor
	if fd, pp := c.Decl("analysis/dataflow", "IntraAnalysisState.Pre"); fd != nil {
		r.Analysed("analysis/dataflow.IntraAnalysisState.Pre")
		ok := false
		ast.Inspect(fd.Body, func(n ast.Node) bool {
			rs, isR := n.(*ast.RangeStmt)
			if !isR {
				return true
			}
			if !exprAny(rs.X, func(m ast.Node) bool {
				se, ok := m.(*ast.SelectorExpr)
				return ok && se.Sel.Name == "instrPrev"
			}) {
				return true
			}
			// inside: a range over MarkedValues calling mergeInto
			ast.Inspect(rs.Body, func(m ast.Node) bool {
				r2, isR2 := m.(*ast.RangeStmt)
				if !isR2 || !exprAny(r2.X, func(x ast.Node) bool {
					se, ok := x.(*ast.SelectorExpr)
					return ok && se.Sel.Name == "MarkedValues"
				}) {
					return true
				}
				if exprAny(r2.Body, func(x ast.Node) bool {
					call, ok := x.(*ast.CallExpr)
					if !ok {
						return false
					}
					o := core.CalleeObj(call, pp.TypesInfo)
					return o != nil && o.Name() == "mergeInto"
				}) {
					ok = true
				}
				return true
			})
			return true
		})
		r.Check(ok, "R08.monotone.pre", "analysis/dataflow.IntraAnalysisState.Pre|join-all-preds", c.Pos(fd.Pos()),
			"Pre ranges over instrPrev[...] and merges every value of every predecessor state (mergeInto)", "Pre does not merge every predecessor's state: the state is not closed under control-flow propagation")
	} else {
		r.Fail("infra.anchor-unresolved", "R08.monotone.pre|analysis/dataflow.IntraAnalysisState.Pre", "", "not found")
	}
	if fd, pp := c.Decl("analysis/dataflow", "populateInstrPrevMap"); fd != nil {
		r.Analysed("analysis/dataflow.populateInstrPrevMap")
		hasPreds := exprAny(fd.Body, func(n ast.Node) bool {
			rs, ok := n.(*ast.RangeStmt)
			if !ok {
				return false
			}
			se, ok := ast.Unparen(rs.X).(*ast.SelectorExpr)
			return ok && se.Sel.Name == "Preds"
		})
		hasRunDefers := exprAny(fd.Body, func(n ast.Node) bool {
			ta, ok := n.(*ast.TypeAssertExpr)
			return ok && ta.Type != nil && core.SSATypeName(pp.TypesInfo.TypeOf(ta.Type)) == "RunDefers"
		})
		r.Check(hasPreds, "R08.monotone.prev", "analysis/dataflow.populateInstrPrevMap|block-preds", c.Pos(fd.Pos()),
			"predecessor map ranges over BasicBlock.Preds", "predecessor map never consults BasicBlock.Preds: states do not flow across blocks")
		r.Check(hasRunDefers, "R08.monotone.prev", "analysis/dataflow.populateInstrPrevMap|rundefers", c.Pos(fd.Pos()),
			"predecessor map has the any-instruction -> RunDefers case (panics)", "the any-instruction -> RunDefers predecessor case is gone: deferred calls no longer see states of panicking paths")
	} else {
		r.Fail("infra.anchor-unresolved", "R08.monotone.prev|analysis/dataflow.populateInstrPrevMap", "", "not found")
	}
}

// builtinOracle decides, for a call of the builtin `name` with `arity`
// arguments, the conditions the predicate and the handler test (SSA): string
// comparisons of the callee's name, comparisons of len(<call>.Args), IsInvoke()
// (false for a builtin), nil tests of the callee value (non-nil).
func builtinOracle(name string, arity int) func(v ssa.Value) (bool, bool) {
	isNameValue := func(v ssa.Value) bool {
		call, ok := v.(*ssa.Call)
		if !ok {
			return false
		}
		if call.Call.IsInvoke() {
			return call.Call.Method.Name() == "Name"
		}
		sc := call.Call.StaticCallee()
		return sc != nil && strings.HasSuffix(sc.Name(), "Name")
	}
	isArgsLen := func(v ssa.Value) bool {
		call, ok := v.(*ssa.Call)
		if !ok {
			return false
		}
		b, ok := call.Call.Value.(*ssa.Builtin)
		if !ok || b.Name() != "len" || len(call.Call.Args) != 1 {
			return false
		}
		_, f := core.FieldOf(unload(call.Call.Args[0]))
		return f != nil && f.Name() == "Args"
	}
	return func(v ssa.Value) (bool, bool) {
		switch x := v.(type) {
		case *ssa.Call:
			if x.Call.IsInvoke() && x.Call.Method.Name() == "IsInvoke" {
				return false, true
			}
			if sc := x.Call.StaticCallee(); sc != nil && sc.Name() == "IsInvoke" {
				return false, true
			}
		case *ssa.BinOp:
			for _, pair := range [][2]ssa.Value{{x.X, x.Y}, {x.Y, x.X}} {
				k, isC := pair[1].(*ssa.Const)
				if !isC {
					continue
				}
				if k.Value != nil && k.Value.Kind() == constant.String && isNameValue(pair[0]) {
					eq := constant.StringVal(k.Value) == name
					switch x.Op {
					case token.EQL:
						return eq, true
					case token.NEQ:
						return !eq, true
					}
				}
				if k.Value != nil && k.Value.Kind() == constant.Int && isArgsLen(pair[0]) {
					n, _ := constant.Int64Val(k.Value)
					l, r := int64(arity), n
					if pair[0] == x.Y {
						l, r = n, int64(arity)
					}
					switch x.Op {
					case token.EQL:
						return l == r, true
					case token.NEQ:
						return l != r, true
					case token.LSS:
						return l < r, true
					case token.LEQ:
						return l <= r, true
					case token.GTR:
						return l > r, true
					case token.GEQ:
						return l >= r, true
					}
				}
				if k.IsNil() {
					// the callee value of a builtin call is not nil
					if _, f := core.FieldOf(unload(pair[0])); f != nil && f.Name() == "Value" {
						return x.Op == token.NEQ, true
					}
				}
			}
		}
		return false, false
	}
}

func unload(v ssa.Value) ssa.Value {
	if u, ok := v.(*ssa.UnOp); ok && u.Op == token.MUL {
		return u.X
	}
	return v
}
