package rules

import (
	"fmt"
	"go/constant"
	"go/token"
	"go/types"
	"sort"
	"strings"

	"golang.org/x/tools/go/ssa"

	"verif/checker/core"
)

// apGrammarRule (R01.apgrammar / R03.apgrammar): access paths are strings built
// by one concatenation point, dataflow.accessPathPrepend(path, element); the
// elements the producers pass ("." + field, "[*]") define the separators of the
// path grammar. A traversal may select edges by testing that the current access
// path is a prefix of the edge's path. A consumer that goes further and inspects
// the character following the matched prefix must accept every separator the
// producers emit; otherwise a taint sitting on a whole slice/map-typed field
// (".payload") no longer matches the edge labelled ".payload[*]" and the flow is
// dropped. Decided on the SSA of the visitor's addNext with helpers inlined: the
// byte constants compared with an indexed access-path string (a value whose
// slice reads AccessPaths or RelPath) must cover the first bytes of all producer
// elements. A consumer that only uses prefix tests has nothing to discharge.
func apGrammarRule(c *core.Ctx, r *core.Report, rule, pkgRel string) {
	r.Explain(rule + ": the separators of the access-path grammar are the first bytes of the elements producers pass to dataflow.accessPathPrepend; a consumer in " + pkgRel + ".(*Visitor).addNext (helpers inlined) that inspects the character after a matched prefix of an access path must accept all of them; prefix-only consumers have nothing to discharge.")
	// producers
	seps := map[byte]bool{}
	nProd := 0
	for _, fn := range c.RepoFunctions() {
		if c.FuncPkgRel(fn) != "analysis/dataflow" {
			continue
		}
		for _, b := range fn.Blocks {
			for _, ins := range b.Instrs {
				call, ok := ins.(*ssa.Call)
				if !ok || len(call.Call.Args) != 2 {
					continue
				}
				if sc := call.Call.StaticCallee(); sc == nil || sc.Name() != "accessPathPrepend" {
					continue
				}
				nProd++
				for k := range core.NewReadPaths(c, call.Call.Args[1]).Consts {
					if k != "" {
						seps[k[0]] = true
					}
				}
			}
		}
	}
	if nProd < 2 || len(seps) < 2 {
		r.Fail("infra.anchor-unresolved", rule+"|accessPathPrepend", "", fmt.Sprintf("access-path producers not found (%d calls, %d separators)", nProd, len(seps)))
		return
	}
	var roots []*ssa.Function
	if pkgRel == "analysis/dataflow" {
		// the access-path library and its users inside the package: every function is a root
		for _, f := range c.RepoFunctions() {
			if c.FuncPkgRel(f) == pkgRel && !strings.HasSuffix(c.Fset.Position(f.Pos()).Filename, "_test.go") {
				roots = append(roots, f)
			}
		}
	} else {
		fn := c.Func(pkgRel, "Visitor.addNext")
		if fn == nil {
			r.Fail("infra.anchor-unresolved", rule+"|"+pkgRel+".Visitor.addNext", "", "not found")
			return
		}
		roots = []*ssa.Function{fn}
	}
	fn := roots[0]
	isAP := func(ii core.InlinedInstr, v ssa.Value) bool {
		sl := ii.Slice(v)
		return sl.HasSuffix("AccessPaths") || sl.HasSuffix("RelPath") || sl.HasSuffix("accessMarks")
	}
	got := map[byte]bool{}
	var where string
	var all []core.InlinedInstr
	depth := c.Depth(2)
	if len(roots) > 1 {
		depth = 0
	}
	for _, root := range roots {
		all = append(all, core.InlinedInstrs(c, root, depth, apPred)...)
	}
	for _, ii := range all {
		switch x := ii.Ins.(type) {
		case *ssa.BinOp:
			for _, pair := range [][2]ssa.Value{{x.X, x.Y}, {x.Y, x.X}} {
				k, isC := pair[1].(*ssa.Const)
				if !isC || k.Value == nil || k.Value.Kind() != constant.Int {
					continue
				}
				var str ssa.Value
				switch y := pair[0].(type) {
				case *ssa.Lookup:
					str = y.X
				case *ssa.Index:
					str = y.X
				case *ssa.UnOp:
					if ia, ok := y.X.(*ssa.IndexAddr); ok {
						str = ia.X
					}
				}
				if str == nil {
					continue
				}
				if b, ok := types.Unalias(str.Type()).Underlying().(*types.Basic); !ok || b.Info()&types.IsString == 0 {
					continue
				}
				if !isAP(ii, str) {
					continue
				}
				if n, exact := constant.Int64Val(k.Value); exact && n >= 0 && n < 256 {
					got[byte(n)] = true
					where = c.Pos(x.Pos())
				}
			}
		case *ssa.Call:
			// a prefix test of the REMAINDER of an access path (result of a previous CutPrefix) against a constant
			k, isC := x.Call.Args[1].(*ssa.Const)
			if !isC || k.Value == nil || k.Value.Kind() != constant.String || constant.StringVal(k.Value) == "" {
				continue
			}
			ex, isEx := x.Call.Args[0].(*ssa.Extract)
			if !isEx {
				continue
			}
			if prev, ok := ex.Tuple.(*ssa.Call); !ok || prev.Call.StaticCallee() == nil || prev.Call.StaticCallee().Name() != "CutPrefix" {
				continue
			}
			if isAP(ii, x.Call.Args[0]) {
				got[constant.StringVal(k.Value)[0]] = true
				where = c.Pos(x.Pos())
			}
		}
	}
	key := pkgRel + ".Visitor.addNext|separators"
	if len(roots) > 1 {
		key = pkgRel + "|access-path-consumers|separators"
	}
	if len(got) == 0 {
		r.OK(rule, key, c.Pos(fn.Pos()), "edge selection by access path uses prefix tests only: no separator to recognise")
		return
	}
	var missing []string
	for s := range seps {
		if !got[s] {
			missing = append(missing, fmt.Sprintf("%q", string([]byte{s})))
		}
	}
	sort.Strings(missing)
	r.Check(len(missing) == 0, rule, key, where, "the consumer accepts every separator of the access-path grammar after a matched prefix",
		"after matching a prefix of an access path the consumer inspects the next character but does not accept the separator(s) "+strings.Join(missing, ", ")+" that the producers (accessPathPrepend) emit: a taint on a whole slice/map/array-typed field (\".payload\") no longer selects the edge labelled \".payload[*]\" and the flow is dropped")
}

func apPred(ins ssa.Instruction) bool {
	switch x := ins.(type) {
	case *ssa.BinOp:
		return x.Op == token.EQL || x.Op == token.NEQ
	case *ssa.Call:
		sc := x.Call.StaticCallee()
		return sc != nil && sc.Pkg != nil && sc.Pkg.Pkg.Path() == "strings" && (sc.Name() == "HasPrefix" || sc.Name() == "CutPrefix")
	}
	return false
}
