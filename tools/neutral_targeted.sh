#!/bin/bash
# Targeted neutral regression: for each behaviour-preserving patch, run the checks whose rules read the files it touches
# (used when the full 19-check corpus run does not fit the time budget). Output lines as one_neutral.sh, with the checks run.
j=${1:-4}
n=0
for f in /verif/neutral/*/patch-*.diff; do
  props=""
  grep -q "^+++ b/analysis/taint/dataflow_visitor.go" $f && props="$props C01 C02 C05 C13"
  grep -q "^+++ b/analysis/backtrace/backtrace.go" $f && props="$props C03"
  grep -q "^+++ b/analysis/dataflow/inter_procedural.go" $f && props="$props C10"
  grep -q "^+++ b/internal/pointer/gen.go" $f && props="$props C11"
  grep -q "^+++ b/analysis/escape/graph.go" $f && props="$props C15"
  grep -q "^+++ b/analysis/escape/escape.go" $f && props="$props C14"
  grep -q "^+++ b/analysis/defers/defer.go" $f && props="$props C16"
  grep -q "^+++ b/analysis/config/code_identifier.go" $f && props="$props C04"
  grep -q "^+++ b/analysis/dataflow/trace.go" $f && props="$props C07"
  grep -q "^+++ b/analysis/dataflow/function_summary_graph.go" $f && props="$props C09 C10"
  props=$(echo $props | tr ' ' '\n' | sort -u | tr '\n' ' ')
  [ -z "${props// /}" ] && continue
  ( out=$(PROPS="$props" /verif/tools/one_neutral.sh $f); echo "$out [$props]" ) &
  n=$((n+1))
  if [ $n -ge $j ]; then wait -n; n=$((n-1)); fi
done
wait
