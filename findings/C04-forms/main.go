package main

import "os"

func cleanup(path string) { os.RemoveAll(path) }

func direct(name string) {
	cleanup("/tmp/" + name) // identified as a backtrace point: a trace to "/tmp/" + name is reported
}

func deferred(name string) {
	defer cleanup("/var/" + name) // same callee, deferred: not identified, no trace
}

func main() {
	direct(os.Args[1])
	deferred(os.Args[1])
}
