package rules

import (
	"fmt"
	"go/ast"
	"go/token"
	"go/types"
	"strings"

	"golang.org/x/tools/go/ssa"

	"verif/checker/core"
)

func init() { Registry["C15"] = c15 }

const escPath = core.Module + "/analysis/escape"

var freshGraphMakers = map[string]bool{"NewEmptyEscapeGraph": true, "Clone": true, "CloneReachable": true}

type c15ctx struct {
	c          *core.Ctx
	freshParam map[*ssa.Parameter]bool
	localOnly  bool // do not count parameters as fresh
}

func isEscapeGraphPtr(t types.Type) bool {
	n, ok := derefNamed(t)
	_, isPtr := types.Unalias(t).(*types.Pointer)
	return ok && isPtr && n.Obj().Name() == "EscapeGraph" && n.Obj().Pkg() != nil && n.Obj().Pkg().Path() == escPath
}

// fresh reports whether v denotes a graph that was created (empty or cloned)
// for the current computation and is not yet shared.
func (x *c15ctx) fresh(v ssa.Value, depth int) bool {
	if depth > 8 {
		return false
	}
	if _, isParam := v.(*ssa.Parameter); isParam && x.localOnly {
		return false
	}
	switch y := v.(type) {
	case *ssa.Call:
		if sc := y.Call.StaticCallee(); sc != nil && freshGraphMakers[sc.Name()] && x.c.FuncPkgRel(sc) == "analysis/escape" {
			return true
		}
	case *ssa.Parameter:
		return x.freshParam[y]
	case *ssa.Phi:
		for _, e := range y.Edges {
			if !x.fresh(e, depth+1) {
				return false
			}
		}
		return len(y.Edges) > 0
	case *ssa.UnOp:
		if y.Op != token.MUL {
			return false
		}
		// load from a variable cell: all stores to the cell are fresh
		var cell ssa.Value = y.X
		if fv, ok := cell.(*ssa.FreeVar); ok {
			// find binding in parent
			fn := fv.Parent()
			idx := -1
			for i, f := range fn.FreeVars {
				if f == fv {
					idx = i
				}
			}
			par := fn.Parent()
			if par == nil || idx < 0 {
				return false
			}
			cell = nil
			for _, b := range par.Blocks {
				for _, ins := range b.Instrs {
					if mc, ok := ins.(*ssa.MakeClosure); ok && mc.Fn == fn {
						cell = mc.Bindings[idx]
					}
				}
			}
			if cell == nil {
				return false
			}
		}
		if al, ok := cell.(*ssa.Alloc); ok && al.Referrers() != nil {
			stores := 0
			for _, ref := range *al.Referrers() {
				if st, ok := ref.(*ssa.Store); ok && st.Addr == al {
					stores++
					if !x.fresh(st.Val, depth+1) {
						return false
					}
				}
			}
			return stores > 0
		}
	}
	return false
}

// owner resolves a map value to (graph value, which store, freshLocalMap).
func (x *c15ctx) owner(m ssa.Value, depth int) (g ssa.Value, field string, localFresh bool) {
	if depth > 8 {
		return nil, "", false
	}
	switch y := m.(type) {
	case *ssa.MakeMap:
		return nil, "", true
	case *ssa.UnOp:
		if y.Op == token.MUL {
			if n, f := core.FieldOf(y.X); n != nil && n.Obj().Name() == "EscapeGraph" && n.Obj().Pkg().Path() == escPath {
				return y.X.(*ssa.FieldAddr).X, f.Name(), false
			}
		}
	case *ssa.Extract:
		return x.owner(y.Tuple, depth+1)
	case *ssa.Next:
		if rg, ok := y.Iter.(*ssa.Range); ok {
			g, f, _ := x.owner(rg.X, depth+1)
			if g != nil {
				return g, f + ".inner", false
			}
		}
	case *ssa.Lookup:
		g, f, _ := x.owner(y.X, depth+1)
		if g != nil {
			return g, f + ".inner", false
		}
	case *ssa.Phi:
		var g0 ssa.Value
		f0 := ""
		allFresh := true
		for _, e := range y.Edges {
			g, f, lf := x.owner(e, depth+1)
			if lf {
				continue
			}
			allFresh = false
			if g == nil {
				return nil, "", false
			}
			g0, f0 = g, f
		}
		if allFresh {
			return nil, "", true
		}
		return g0, f0, false
	}
	return nil, "", false
}

// guardedBy: every edge into the block of ins (or the block itself, walking up
// through single-predecessor chains) is the branch of an If for which ok(cond, branchIndex) holds.
func guardedBy(ins ssa.Instruction, ok func(cond ssa.Value, branch int) bool) bool {
	b := ins.Block()
	for hops := 0; hops < 6; hops++ {
		if len(b.Preds) == 0 {
			return false
		}
		all := true
		for _, p := range b.Preds {
			iff, isIf := p.Instrs[len(p.Instrs)-1].(*ssa.If)
			if !isIf {
				all = false
				break
			}
			br := 1
			if p.Succs[0] == b {
				br = 0
			}
			if !ok(iff.Cond, br) {
				all = false
				break
			}
		}
		if all {
			return true
		}
		if len(b.Preds) == 1 {
			b = b.Preds[0]
			continue
		}
		return false
	}
	return false
}

func isStatusType(t types.Type) bool {
	n, ok := types.Unalias(t).(*types.Named)
	return ok && n.Obj().Name() == "EscapeStatus"
}

func c15(c *core.Ctx, r *core.Report) {
	r.Explain("R15.grow: every write to the ordering-relevant stores of an escape graph (EscapeGraph.edges, its inner edge maps, EscapeGraph.status) in package escape is enumerated from SSA and must have monotone shape: inner edge flags are written as old|new, status writes are guarded by a strict > comparison against the old status or by key absence, outer edge-map entries are only installed (fresh empty map) under key absence; writes of any other shape and every delete are allowed only on a *fresh* graph (created by NewEmptyEscapeGraph/Clone/CloneReachable in the same function, or a parameter that every repository caller binds to such a graph - computed as a fixpoint over call sites). R15.merge: Merge is built only from AddEdge/AddNode/MergeNodeStatus over all edges and statuses of its argument; Matches and LessEqual compare both edges and status. R15.matches: Matches compares the CONTENTS of edges and of status of the two graphs (reflect.DeepEqual / maps.Equal on the like-named fields of receiver and argument, or a range over one with lookups in the other; len() alone is not a comparison). R15.selfcheck (info): whether the monotonicity self-check is enabled.")
	r.NotDecided("the algebraic laws for all graph pairs and monotonicity of Call instantiation / load-node creation.")
	x := &c15ctx{c: c, freshParam: map[*ssa.Parameter]bool{}}
	// candidate params
	var fns []*ssa.Function
	for _, fn := range c.RepoFunctions() {
		if c.FuncPkgRel(fn) == "analysis/escape" && !strings.HasSuffix(c.Fset.Position(fn.Pos()).Filename, "_test.go") {
			fns = append(fns, fn)
		}
	}
	type site struct {
		caller *ssa.Function
		args   []ssa.Value
	}
	callSites := map[*ssa.Function][]site{}
	for _, fn := range c.RepoFunctions() {
		if strings.HasSuffix(c.Fset.Position(fn.Pos()).Filename, "_test.go") {
			continue
		}
		for _, b := range fn.Blocks {
			for _, ins := range b.Instrs {
				if ci, ok := ins.(ssa.CallInstruction); ok {
					if sc := ci.Common().StaticCallee(); sc != nil && c.FuncPkgRel(sc) == "analysis/escape" {
						callSites[sc] = append(callSites[sc], site{fn, ci.Common().Args})
					}
				}
			}
		}
	}
	// optimistic fixpoint: start with all graph params of called functions fresh, remove violators
	for _, fn := range fns {
		for _, p := range fn.Params {
			if isEscapeGraphPtr(p.Type()) && len(callSites[fn]) > 0 {
				x.freshParam[p] = true
			}
		}
	}
	for changed := true; changed; {
		changed = false
		for _, fn := range fns {
			for i, p := range fn.Params {
				if !x.freshParam[p] {
					continue
				}
				for _, s := range callSites[fn] {
					if i >= len(s.args) || !x.fresh(s.args[i], 0) {
						x.freshParam[p] = false
						changed = true
						break
					}
				}
			}
		}
	}
	// functions reachable from the lattice operations used inside the fixpoint
	gph := c.RepoGraph()
	latticeCone := gph.Cone(false, c.Func("analysis/escape", "functionAnalysisState.transferFunction"), c.Func("analysis/escape", "EscapeGraph.Merge"), c.Func("analysis/escape", "EscapeGraph.Call"))
	if len(latticeCone) < 10 {
		r.Fail("infra.anchor-unresolved", "R15.grow|lattice-cone", "", "transferFunction/Merge/Call not found")
	}
	cnt := map[string]int{}
	for _, fn := range fns {
		name := c.FuncName(fn)
		for _, b := range fn.Blocks {
			for _, ins := range b.Instrs {
				var m, key, val ssa.Value
				isDelete := false
				switch y := ins.(type) {
				case *ssa.MapUpdate:
					m, key, val = y.Map, y.Key, y.Value
				case *ssa.Call:
					if bi, ok := y.Call.Value.(*ssa.Builtin); ok && (bi.Name() == "delete" || bi.Name() == "clear") && len(y.Call.Args) > 0 {
						m, isDelete = y.Call.Args[0], true
					}
				}
				if m == nil {
					continue
				}
				g, field, _ := x.owner(m, 0)
				if g == nil || strings.HasPrefix(field, "rationales") || strings.HasPrefix(field, "nodes") {
					continue // not an ordering-relevant graph store (or a fresh local map being filled)
				}
				cnt[name+field]++
				k := fmt.Sprintf("%s|%s#%d", name, field, cnt[name+field])
				pos := c.Pos(ins.Pos())
				freshParamG := x.fresh(g, 0)
				x.localOnly = true
				freshG := x.fresh(g, 0) // created in this very function (constructor / clone / context builder)
				x.localOnly = false
				switch {
				case isDelete:
					inCone := latticeCone[fn]
					r.Check(freshParamG && !inCone, "R15.grow", k+"|delete", pos, "entries are removed only from a fresh graph (every caller passes a new clone) by a function not reachable from the transfer function, the join or call instantiation",
						"an entry is deleted from "+field+" of a graph that is not provably a fresh clone, or by a function reachable from transferFunction/Merge/Call: the lattice element shrinks, so transfer functions are not monotone and the fixpoint depends on processing order")
				case freshG:
					r.OK("R15.grow", k, pos, "write to a fresh graph (constructor / clone / context builder)")
				case field == "status":
					ok := guardedBy(ins, func(cond ssa.Value, br int) bool {
						if bo, isB := cond.(*ssa.BinOp); isB && isStatusType(bo.X.Type()) {
							return (bo.Op == token.GTR && br == 0) || (bo.Op == token.LEQ && br == 1)
						}
						if ex, isE := cond.(*ssa.Extract); isE && ex.Index == 1 {
							if lk, isL := ex.Tuple.(*ssa.Lookup); isL && lk.CommaOk {
								return br == 1 // !ok: key absent
							}
						}
						return false
					})
					r.Check(ok, "R15.grow", k, pos, "status is raised only under a strict > comparison with the old status or when the node is new",
						"status[n] is overwritten without a strict-increase or key-absence guard: a node's status can decrease, Merge is no upper bound and the fixpoint may not exist")
				case field == "edges":
					_, isMake := val.(*ssa.MakeMap)
					ok := isMake && guardedBy(ins, func(cond ssa.Value, br int) bool {
						if ex, isE := cond.(*ssa.Extract); isE && ex.Index == 1 {
							if lk, isL := ex.Tuple.(*ssa.Lookup); isL && lk.CommaOk {
								return br == 1
							}
						}
						return false
					})
					r.Check(ok, "R15.grow", k, pos, "an empty out-edge map is installed only for a node that had none",
						"edges[n] is replaced (not a fresh empty map under key absence): existing out-edges of n are dropped")
				case field == "edges.inner":
					ok := false
					if bo, isB := val.(*ssa.BinOp); isB && bo.Op == token.OR {
						for _, side := range []ssa.Value{bo.X, bo.Y} {
							if lk, isL := side.(*ssa.Lookup); isL && lk.X == m && lk.Index == key {
								ok = true
							}
						}
					}
					r.Check(ok, "R15.grow", k, pos, "edge flags are written as old | new",
						"edge flags are overwritten instead of or-ed with the old flags: an internal/external/subnode flag can be lost, the graph is not grow-only")
				default:
					r.Fail("R15.grow", k, pos, "write to graph store "+field+" of unrecognised shape (undecided)")
				}
			}
		}
	}
	r.Floor("R15.grow", 12, "9 edge + 7 status write sites, 4 deletes measured")

	// ---- R15.merge
	c15merge(c, r)
	for _, nm := range []string{"Matches", "LessEqual"} {
		if fd, _ := c.Decl("analysis/escape", "EscapeGraph."+nm); fd != nil {
			sel := map[string]bool{}
			ast.Inspect(fd.Body, func(n ast.Node) bool {
				if se, ok := n.(*ast.SelectorExpr); ok {
					sel[se.Sel.Name] = true
				}
				return true
			})
			r.Check((sel["edges"] || sel["Edges"]) && sel["status"], "R15.merge", "analysis/escape.EscapeGraph."+nm+"|compares-both", c.Pos(fd.Pos()), nm+" compares both edges and status",
				nm+" ignores edges or status: convergence is declared while the ignored component still changes (or never declared)")
		} else {
			r.Fail("infra.anchor-unresolved", "R15.merge|"+nm, "", "not found")
		}
	}
	r.Floor("R15.merge", 3, "Merge, Matches, LessEqual")
	c15matches(c, r)
	guardKeyRule(c, r, "R15.once", func(fn *ssa.Function, rel string) bool { return rel == "analysis/escape" },
		"a status or edge that the callee summary mandates for several caller nodes reaches only the first one processed: instantiation is not monotone (a larger input graph can yield a smaller output) and depends on map iteration order")
}
