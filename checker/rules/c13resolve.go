package rules

import (
	"fmt"
	"os"
	"go/types"
	"strings"

	"golang.org/x/tools/go/ssa"

	"verif/checker/core"
)

// c13resolve (R13.resolve): escapeCallsiteInfoImpl.Resolve builds the escape
// context a callee is analysed in by mapping caller nodes to callee nodes
// through calls of a func(*Node, *Node) closure. Whatever the shape of the
// code (helpers, closures), three bindings must exist:
//
//	receiver: the node of the call site's Call.Value mapped to the node of a callee parameter
//	          (interface invocations: without it the receiver has no pointees in the callee's context
//	          and every access through it is classified local)
//	args:     the node of an element of Call.Args mapped to the node of a callee parameter
//	freevars: an object reached from Call.Value mapped to the node of a callee free variable
func c13resolve(c *core.Ctx, r *core.Report) {
	fn := c.Func("analysis/escape", "escapeCallsiteInfoImpl.Resolve")
	if fn == nil {
		r.Fail("infra.anchor-unresolved", "R13.resolve|analysis/escape.escapeCallsiteInfoImpl.Resolve", "", "not found")
		return
	}
	r.Analysed("analysis/escape.escapeCallsiteInfoImpl.Resolve")
	var fns []*ssa.Function
	var collect func(f *ssa.Function)
	collect = func(f *ssa.Function) {
		fns = append(fns, f)
		for _, a := range f.AnonFuncs {
			collect(a)
		}
	}
	collect(fn)
	isNodePtr := func(t types.Type) bool { return strings.HasSuffix(core.ShortType(t), "escape.Node") }
	valueNodeArg := func(v ssa.Value) ssa.Value {
		call, ok := v.(*ssa.Call)
		if !ok || len(call.Call.Args) == 0 {
			return nil
		}
		if sc := call.Call.StaticCallee(); sc == nil || sc.Name() != "ValueNode" {
			return nil
		}
		return call.Call.Args[len(call.Call.Args)-1]
	}
	got := map[string]string{}
	nMap := 0
	isMapping := func(ins ssa.Instruction) bool {
		call, ok := ins.(*ssa.Call)
		if !ok || call.Call.IsInvoke() {
			return false
		}
		sig, ok := call.Call.Value.Type().Underlying().(*types.Signature)
		if !ok || sig.Results().Len() != 0 {
			return false
		}
		// exactly two *Node operands (a method's receiver comes first in the SSA argument list)
		args := call.Call.Args
		if sig.Recv() != nil && len(args) > 0 {
			args = args[1:]
		}
		return len(args) == 2 && isNodePtr(args[0].Type()) && isNodePtr(args[1].Type())
	}
	check := func(ii core.InlinedInstr) {
		call := ii.Ins.(*ssa.Call)
		nMap++
		n := len(call.Call.Args)
		src, dst := call.Call.Args[n-2], call.Call.Args[n-1]
		ss, ds := ii.Slice(src), ii.Slice(dst)
		if os.Getenv("R13_DEBUG") != "" {
			fmt.Printf("DEBUG map call at %s\n  src paths %v calls %v\n  dst paths %v\n", c.Pos(call.Pos()), ss.Paths, ss.Calls, ds.Paths)
		}
		if a := valueNodeArg(src); a != nil {
			rp := ii.Slice(a)
			if rp.HasSuffix("Call", "Value") && !rp.HasSuffix("Call", "Args") && ds.HasSuffix("Params") {
				got["receiver"] = c.Pos(call.Pos())
			}
		}
		if ss.HasSuffix("Call", "Args") && ds.HasSuffix("Params") {
			got["args"] = c.Pos(call.Pos())
		}
		if ss.HasSuffix("Call", "Value") && ds.HasSuffix("FreeVars") {
			got["freevars"] = c.Pos(call.Pos())
		}
	}
	// Resolve and its closures, each with the package functions they call statically (two levels), inlined
	for _, f := range fns {
		for _, ii := range core.InlinedInstrs(c, f, c.Depth(2), isMapping) {
			check(ii)
		}
	}
	why := map[string]string{
		"receiver": "the receiver of an interface invocation (Call.Value) is not mapped to a parameter of the callee: in the callee's context the receiver has no pointees, every load/store through it is classified local, and tainted data written to an object already shared with another goroutine is reported neither as a flow nor as an escape",
		"args":     "the arguments of the call are not mapped to the callee's parameters: accesses through parameters are classified local in the callee's context",
		"freevars": "the objects captured by a called closure are not mapped to the callee's free variables: accesses through captured variables are classified local",
	}
	for _, k := range []string{"receiver", "args", "freevars"} {
		pos := got[k]
		if pos == "" {
			pos = c.Pos(fn.Pos())
		}
		r.Check(got[k] != "", "R13.resolve", "analysis/escape.escapeCallsiteInfoImpl.Resolve|"+k, pos, "binding present", why[k])
	}
	if nMap == 0 {
		r.Fail("R13.resolve", "analysis/escape.escapeCallsiteInfoImpl.Resolve|mapping-calls", c.Pos(fn.Pos()), "no call of a func(*Node, *Node) mapping closure found")
	}
}
