package rules

import (
	"fmt"
	"go/token"
	"strings"

	"golang.org/x/tools/go/ssa"

	"verif/checker/core"
)

// rowsRule (R09.rows / R10.rows): PopulateGraphFromSummary applies a summary
// (predefined or user contract) as written: EVERY row of summary.Args yields
// parameter-to-parameter edges and EVERY row of summary.Rets yields
// parameter-to-result edges. On SSA (helpers inlined): the source position
// handed to addParamEdgeByPos is the index of a loop bounded by
// len(summary.Args) and the target an element of summary.Args; likewise
// addReturnEdgeByPos with summary.Rets. A row index bounded by the length of
// the OTHER table silently skips the rows beyond it (tables need not have the
// same number of rows: functions without results are written Rets: {{}}).
func rowsRule(c *core.Ctx, r *core.Report, rule string) {
	fn := c.Func("analysis/dataflow", "SummaryGraph.PopulateGraphFromSummary")
	if fn == nil {
		r.Fail("infra.anchor-unresolved", rule+"|analysis/dataflow.SummaryGraph.PopulateGraphFromSummary", "", "not found")
		return
	}
	r.Analysed("analysis/dataflow.SummaryGraph.PopulateGraphFromSummary")
	want := map[string]string{"addParamEdgeByPos": "Args", "addReturnEdgeByPos": "Rets"}
	seen := map[string]bool{}
	for _, ii := range core.InlinedInstrs(c, fn, c.Depth(2), func(ins ssa.Instruction) bool {
		call, ok := ins.(*ssa.Call)
		if !ok {
			return false
		}
		sc := call.Call.StaticCallee()
		return sc != nil && want[sc.Name()] != ""
	}) {
		call := ii.Ins.(*ssa.Call)
		name := call.Call.StaticCallee().Name()
		table := want[name]
		if len(call.Call.Args) != 3 {
			continue
		}
		seen[name] = true
		src, dst := call.Call.Args[1], call.Call.Args[2]
		// the loop(s) bounding src: comparisons `src < len(E)` in the function of the call
		var bounds []string
		base := src
		if bo, ok := src.(*ssa.BinOp); ok && bo.Op == token.ADD {
			base = bo.X
		}
		// only the comparisons the call is control dependent on
		for _, cc := range ii.ControlConds() {
			bo, ok := cc.Ins.(*ssa.If).Cond.(*ssa.BinOp)
			if !ok || bo.Op != token.LSS {
				continue
			}
			x := bo.X
			if add, ok := x.(*ssa.BinOp); ok && add.Op == token.ADD {
				x = add.X
			}
			if x != base && bo.X != src {
				continue
			}
			lc, ok := bo.Y.(*ssa.Call)
			if !ok {
				continue
			}
			if bi, ok := lc.Call.Value.(*ssa.Builtin); !ok || bi.Name() != "len" {
				continue
			}
			if p := cc.PathOf(lc.Call.Args[0]); p != "" {
				bounds = append(bounds, p)
			}
		}
		rowsOK := false
		for _, p := range bounds {
			if strings.HasSuffix(p, table) {
				rowsOK = true
			}
		}
		// a source index bounded ONLY by the other table is the defect; an additional guard against the own table is fine
		onlyOther := len(bounds) > 0 && !rowsOK
		isRangeOverOwn := rowsOK
		for _, p := range bounds {
			if !strings.HasSuffix(p, table) && (strings.HasSuffix(p, "Args") || strings.HasSuffix(p, "Rets")) {
				// iterating the other table's rows: rows of the own table beyond it are skipped
				isRangeOverOwn = isRangeOverOwn && false
			}
		}
		elemOK := ii.Slice(dst).HasSuffix(table)
		r.Check(isRangeOverOwn && !onlyOther && elemOK, rule, "analysis/dataflow.SummaryGraph.PopulateGraphFromSummary|"+table+"-rows", c.Pos(call.Pos()),
			"every row of summary."+table+" is applied with (row index, listed position)",
			fmt.Sprintf("%s is not called for every row of summary.%s (row index bounded by %v, target from %s=%v): rows of summary.%s beyond the other table's length are silently skipped (e.g. (*atomic.Value).Store, written with Rets: {{}}, loses its value->receiver edge)", name, table, bounds, table, elemOK, table))
	}
	for name, table := range want {
		if !seen[name] {
			r.Fail(rule, "analysis/dataflow.SummaryGraph.PopulateGraphFromSummary|"+table+"-rows", c.Pos(fn.Pos()), name+" is never called: summary."+table+" is not applied")
		}
	}
}
