package rules

import (
	"fmt"
	"go/constant"
	"go/token"
	"go/types"
	"strings"

	"golang.org/x/tools/go/ssa"

	"verif/checker/core"
)

func funcCalls(fn *ssa.Function, name string, depth int) bool {
	if fn == nil || depth > 3 {
		return false
	}
	for _, b := range fn.Blocks {
		for _, ins := range b.Instrs {
			if ci, ok := ins.(ssa.CallInstruction); ok {
				if sc := ci.Common().StaticCallee(); sc != nil {
					if sc.Name() == name {
						return true
					}
				}
			}
		}
	}
	for _, a := range fn.AnonFuncs {
		if funcCalls(a, name, depth+1) {
			return true
		}
	}
	return false
}

func isConstInt(v ssa.Value, n int64) bool {
	k, ok := v.(*ssa.Const)
	if !ok || k.Value == nil || k.Value.Kind() != constant.Int {
		return false
	}
	x, exact := constant.Int64Val(k.Value)
	return exact && x == n
}

// c16sortedSSA: the Defer arm of dataflowTransfer (helpers inlined) sorts by
// stackCompare and removes adjacent equal stacks.
func c16sortedSSA(c *core.Ctx, r *core.Report) {
	fn := c.Func("analysis/defers", "dataflowTransfer")
	if fn == nil {
		r.Fail("infra.anchor-unresolved", "R16.sorted|analysis/defers.dataflowTransfer", "", "not found")
		return
	}
	r.Analysed("analysis/defers.dataflowTransfer")
	entries, _ := core.TypeCaseEntry(fn, "Defer")
	if len(entries) == 0 {
		r.Fail("R16.sorted", "analysis/defers.dataflowTransfer|Defer-arm", c.Pos(fn.Pos()), "no arm for *ssa.Defer")
		return
	}
	region := map[*ssa.BasicBlock]bool{}
	for _, e := range entries {
		for _, b := range fn.Blocks {
			if e.Dominates(b) {
				region[b] = true
			}
		}
	}
	sorted, dedup := false, false
	for _, ii := range core.InlinedInstrsFrom(c, fn, region, c.Depth(2), func(ins ssa.Instruction) bool {
		switch ins.(type) {
		case *ssa.Call, *ssa.BinOp:
			return true
		}
		return false
	}) {
		switch x := ii.Ins.(type) {
		case *ssa.Call:
			sc := x.Call.StaticCallee()
			if sc == nil || sc.Pkg == nil {
				continue
			}
			pk := sc.Pkg.Pkg.Path()
			isSort := (pk == "sort" && (sc.Name() == "Slice" || sc.Name() == "SliceStable")) || (pk == "slices" && strings.HasPrefix(sc.Name(), "Sort"))
			if !isSort {
				continue
			}
			for _, a := range x.Call.Args {
				var f *ssa.Function
				switch y := a.(type) {
				case *ssa.MakeClosure:
					f, _ = y.Fn.(*ssa.Function)
				case *ssa.Function:
					f = y
				}
				if f != nil && (f.Name() == "stackCompare" || funcCalls(f, "stackCompare", 0)) {
					sorted = true
				}
			}
		case *ssa.BinOp:
			if x.Op != token.NEQ && x.Op != token.EQL {
				continue
			}
			for _, pair := range [][2]ssa.Value{{x.X, x.Y}, {x.Y, x.X}} {
				if call, ok := pair[0].(*ssa.Call); ok && isConstInt(pair[1], 0) {
					if sc := call.Call.StaticCallee(); sc != nil && sc.Name() == "stackCompare" {
						dedup = true
					}
				}
			}
		}
	}
	pos := c.Pos(entries[0].Instrs[0].Pos())
	r.Check(sorted, "R16.sorted", "analysis/defers.dataflowTransfer|Defer-arm-sorts", pos, "the Defer arm sorts the new stacks with stackCompare before de-duplicating",
		"the Defer arm no longer sorts its result by stackCompare: stackSetUnion's sorted merge mis-detects changes and drops or duplicates stacks")
	r.Check(dedup, "R16.sorted", "analysis/defers.dataflowTransfer|Defer-arm-dedups", pos, "adjacent equal stacks are removed", "the Defer arm does not de-duplicate: the set representation contains duplicates and union change detection never stabilises or over-reports")
}

// c16changeSSA: in stackSetUnion, after an append whose appended value comes
// from b, the `same as a` result is false at the first point where control
// merges with paths that did not append: the bool phi feeding the second
// result receives the constant false from the appending side (or the value is
// already the constant false).
func c16changeSSA(c *core.Ctx, r *core.Report) {
	fn := c.Func("analysis/defers", "stackSetUnion")
	if fn == nil || len(fn.Params) < 2 {
		r.Fail("infra.anchor-unresolved", "R16.change|stackSetUnion", "", "not found")
		return
	}
	r.Analysed("analysis/defers.stackSetUnion")
	bParam := fn.Params[1]
	// values that can be the second result
	flag := map[ssa.Value]bool{}
	var mark func(v ssa.Value)
	mark = func(v ssa.Value) {
		if flag[v] {
			return
		}
		flag[v] = true
		if phi, ok := v.(*ssa.Phi); ok {
			for _, e := range phi.Edges {
				mark(e)
			}
		}
	}
	for _, b := range fn.Blocks {
		if ret, ok := b.Instrs[len(b.Instrs)-1].(*ssa.Return); ok && len(ret.Results) == 2 {
			mark(ret.Results[1])
		}
	}
	e := core.NewDepEngine(c)
	n := 0
	for _, b := range fn.Blocks {
		for _, ins := range b.Instrs {
			call, ok := ins.(*ssa.Call)
			if !ok {
				continue
			}
			bi, ok := call.Call.Value.(*ssa.Builtin)
			if !ok || bi.Name() != "append" || len(call.Call.Args) != 2 {
				continue
			}
			if !e.Deps(call.Call.Args[1])[bParam] {
				continue
			}
			n++
			// first merge point: first block reachable from b that b does not dominate
			var join *ssa.BasicBlock
			seen := map[*ssa.BasicBlock]bool{}
			work := append([]*ssa.BasicBlock{}, b.Succs...)
			for len(work) > 0 && join == nil {
				x := work[0]
				work = work[1:]
				if seen[x] {
					continue
				}
				seen[x] = true
				if !b.Dominates(x) {
					join = x
					break
				}
				work = append(work, x.Succs...)
			}
			ok2 := false
			why := "no merge point found"
			if join != nil {
				why = "the result flag has no phi at the merge point: its value is the same whether or not the element of b was inserted"
				for _, pi := range join.Instrs {
					phi, isPhi := pi.(*ssa.Phi)
					if !isPhi {
						break
					}
					if !flag[phi] {
						continue
					}
					all := true
					for i, p := range join.Preds {
						if p == b || b.Dominates(p) {
							if v, isC := phi.Edges[i].(*ssa.Const); !isC || v.Value == nil || v.Value.Kind() != constant.Bool || constant.BoolVal(v.Value) {
								all = false
							}
						}
					}
					ok2 = all
					if !all {
						why = "the side that inserted an element of b does not deliver the constant false"
					}
				}
			}
			r.Check(ok2, "R16.change", fmt.Sprintf("analysis/defers.stackSetUnion|insert-from-b#%d", n), c.Pos(call.Pos()),
				"inserting an element of b clears the same-as-a result", "an element of b is inserted without clearing the same-as-a result ("+why+"): the successor block is not re-analysed and stacks of that path are missing at later exits")
		}
	}
	if n < 2 {
		r.Fail("infra.floor", "R16.change", "", fmt.Sprintf("only %d insertion site(s) of elements of b found in stackSetUnion (in-loop and tail expected)", n))
	}
}

// accumulates: in the function of `call`, a bool phi merges the constant true
// with the boolean result #idx of the call (a || b, or if b { a = true }).
func accumulates(call *ssa.Call, idx int) bool {
	var repeated ssa.Value
	if call.Referrers() != nil {
		for _, ref := range *call.Referrers() {
			if ex, ok := ref.(*ssa.Extract); ok && ex.Index == idx {
				repeated = ex
			}
		}
	}
	if repeated == nil {
		return false
	}
	for _, b := range call.Parent().Blocks {
		for _, ins := range b.Instrs {
			phi, ok := ins.(*ssa.Phi)
			if !ok {
				continue
			}
			hasTrue, hasRep := false, false
			for i, e := range phi.Edges {
				if k, isC := e.(*ssa.Const); isC && k.Value != nil && k.Value.Kind() == constant.Bool && constant.BoolVal(k.Value) {
					hasTrue = true
					p := b.Preds[i]
					for _, pp := range append([]*ssa.BasicBlock{p}, p.Preds...) {
						if iff, ok := pp.Instrs[len(pp.Instrs)-1].(*ssa.If); ok && iff.Cond == repeated {
							hasRep = true
						}
					}
				}
				if e == repeated {
					hasRep = true
				}
			}
			if hasTrue && hasRep {
				return true
			}
		}
	}
	return false
}

// c16loopSSA: R16.index (producer), R16.record, R16.unbounded and R16.worklist on the SSA of AnalyzeFunction
// (helpers it delegates the per-block work to are inlined).
func c16loopSSA(c *core.Ctx, r *core.Report) {
	fn := c.Func("analysis/defers", "AnalyzeFunction")
	if fn == nil {
		r.Fail("infra.anchor-unresolved", "R16.index|AnalyzeFunction", "", "not found")
		return
	}
	r.Analysed("analysis/defers.AnalyzeFunction")
	var tii *core.InlinedInstr
	for _, ii := range core.InlinedInstrs(c, fn, c.Depth(2), func(ins ssa.Instruction) bool {
		call, ok := ins.(*ssa.Call)
		if !ok {
			return false
		}
		sc := call.Call.StaticCallee()
		return sc != nil && sc.Name() == "dataflowTransfer"
	}) {
		x := ii
		tii = &x
	}
	if tii == nil || len(tii.Ins.(*ssa.Call).Call.Args) != 4 {
		r.Fail("infra.anchor-unresolved", "R16.index|AnalyzeFunction|dataflowTransfer-call", c.Pos(fn.Pos()), "call not found in AnalyzeFunction or the helpers it calls")
		return
	}
	transfer := tii.Ins.(*ssa.Call)
	tfn := transfer.Parent()
	a0 := tii.Slice(transfer.Call.Args[0])
	a2 := tii.Slice(transfer.Call.Args[2])
	idx := transfer.Call.Args[1]
	isRange := false
	if phi, ok := idx.(*ssa.Phi); ok && phi.Comment == "rangeindex" {
		isRange = true
	}
	if bo, ok := idx.(*ssa.BinOp); ok && bo.Op == token.ADD {
		if phi, ok := bo.X.(*ssa.Phi); ok && phi.Comment == "rangeindex" {
			isRange = true
		}
	}
	overInstrs := false
	for _, b := range tfn.Blocks {
		for _, ins := range b.Instrs {
			bo, ok := ins.(*ssa.BinOp)
			if !ok || bo.Op != token.LSS || bo.X != idx {
				continue
			}
			if tii.Slice(bo.Y).HasSuffix("Instrs") {
				overInstrs = true
			}
		}
	}
	okIdx := a0.HasSuffix("Index") && isRange && overInstrs && a2.HasSuffix("Instrs")
	r.Check(okIdx, "R16.index", "analysis/defers.AnalyzeFunction|producer", c.Pos(transfer.Pos()), "the transfer function receives (block.Index, range index over block.Instrs, that instruction)", "the indices pushed on defer stacks are not (BasicBlock.Index, position in Instrs) of the instruction transferred: the consumer resolves them to the wrong instruction")
	// record-before-reset
	okRec, nRec := true, 0
	for _, ii := range core.InlinedInstrs(c, fn, c.Depth(2), func(ins ssa.Instruction) bool {
		mu, ok := ins.(*ssa.MapUpdate)
		if !ok {
			return false
		}
		m, ok := types.Unalias(mu.Map.Type()).Underlying().(*types.Map)
		return ok && core.SSATypeName(m.Key()) == "RunDefers"
	}) {
		mu := ii.Ins.(*ssa.MapUpdate)
		nRec++
		if ex, ok := mu.Value.(*ssa.Extract); ok && ex.Tuple == ssa.Value(transfer) {
			okRec = false
		}
	}
	r.Check(okRec && nRec > 0, "R16.record", "analysis/defers.AnalyzeFunction|record-before-reset", c.Pos(transfer.Pos()), "the stack set at a RunDefers is recorded before the transfer resets it", "the set recorded for a RunDefers is taken after the reset: every exit reports the empty stack only")
	// accumulate along the chain of calls from the transfer up to AnalyzeFunction
	okUnb := accumulates(transfer, 1)
	for _, call := range tii.CallChain() {
		c2, isCall := call.(*ssa.Call)
		if !isCall {
			okUnb = false
			continue
		}
		n := c2.Call.Signature().Results().Len()
		okUnb = okUnb && n > 0 && accumulates(c2, n-1)
	}
	r.Check(okUnb, "R16.unbounded", "analysis/defers.AnalyzeFunction|accumulate-repeated", c.Pos(transfer.Pos()), "the unbounded verdict accumulates every repeated flag", "the unbounded verdict is not the accumulation of the repeated flags the transfer function returns along the fixpoint (the flag is overwritten, or the verdict is computed some other way): the fixpoint meets a defer already on the stack exactly when the defer lies on a cycle - reducible or not (goto) -, so a verdict not derived from it can report a function bounded although it defers in a cycle")
	c16worklist(c, r, fn)
}

// c16worklist (R16.worklist): the change flags are the worklist. The flag of
// the block being processed is cleared BEFORE its output is merged into its
// successors: a block that is its own successor gets its flag set again by the
// merge and must be re-processed. On the SSA CFG of AnalyzeFunction: the store
// clearing a flag (constant false) is not reachable from a store setting a
// successor's flag within one iteration of the loop over blocks.
func c16worklist(c *core.Ctx, r *core.Report, fn *ssa.Function) {
	isFlagStore := func(st *ssa.Store) bool {
		ia, ok := st.Addr.(*ssa.IndexAddr)
		if !ok {
			return false
		}
		sl, ok := types.Unalias(ia.X.Type()).Underlying().(*types.Slice)
		if !ok {
			return false
		}
		b, ok := types.Unalias(sl.Elem()).Underlying().(*types.Basic)
		return ok && b.Kind() == types.Bool
	}
	var clears, sets []*ssa.Store
	for _, b := range fn.Blocks {
		for _, ins := range b.Instrs {
			st, ok := ins.(*ssa.Store)
			if !ok || !isFlagStore(st) {
				continue
			}
			if k, isC := st.Val.(*ssa.Const); isC && k.Value != nil && k.Value.Kind() == constant.Bool && !constant.BoolVal(k.Value) {
				// the clear inside the processing loop (not the initialisation loop): it is in a loop that contains a set
				clears = append(clears, st)
			} else if _, isC := st.Val.(*ssa.Const); !isC {
				sets = append(sets, st)
			}
		}
	}
	// keep the clears that sit in a loop containing a set
	loops := core.Loops(fn)
	var procClears []*ssa.Store
	var iterLoop *core.Loop
	for _, cl := range clears {
		for _, l := range loops {
			if !l.Body[cl.Block()] {
				continue
			}
			for _, s := range sets {
				if l.Body[s.Block()] {
					if iterLoop == nil || len(l.Body) < len(iterLoop.Body) {
						iterLoop = l
					}
					procClears = append(procClears, cl)
				}
			}
		}
	}
	if len(procClears) == 0 || len(sets) == 0 || iterLoop == nil {
		r.Fail("infra.anchor-unresolved", "R16.worklist|AnalyzeFunction|change-flags", c.Pos(fn.Pos()), "no change-flag clear/set pair found in the block-processing loop")
		return
	}
	// within one iteration: reachability without taking the back edges of the innermost loop containing both
	reach := func(from, to *ssa.BasicBlock) bool {
		seen := map[*ssa.BasicBlock]bool{}
		st := []*ssa.BasicBlock{from}
		for len(st) > 0 {
			x := st[len(st)-1]
			st = st[:len(st)-1]
			if seen[x] {
				continue
			}
			seen[x] = true
			if x == to && x != from {
				return true
			}
			for _, s := range x.Succs {
				if s == iterLoop.Header {
					continue // next iteration
				}
				st = append(st, s)
			}
		}
		return false
	}
	bad := false
	for _, cl := range procClears {
		for _, s := range sets {
			if !iterLoop.Body[s.Block()] {
				continue
			}
			if s.Block() == cl.Block() {
				if core.InstrIndex(s) < core.InstrIndex(cl) {
					bad = true
				}
			} else if reach(s.Block(), cl.Block()) {
				bad = true
			}
		}
	}
	r.Check(!bad, "R16.worklist", "analysis/defers.AnalyzeFunction|clear-before-merge", c.Pos(procClears[0].Pos()),
		"the processed block's change flag is cleared before its output is merged into its successors",
		"the change flag of the block being processed is cleared AFTER the merge into its successors: for a block that is its own successor the flag set by the merge is lost, the block is not re-processed, a defer in a single-block loop is never seen twice and the function is reported bounded with one stack")
}
