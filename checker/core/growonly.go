package core

import (
	"go/types"

	"golang.org/x/tools/go/ssa"
)

// ElementStores returns the stores that overwrite an element of a slice or
// array whose element type satisfies pred (x[i] = v).
func ElementStores(fn *ssa.Function, pred func(elem types.Type) bool) []*ssa.Store {
	var res []*ssa.Store
	for _, b := range fn.Blocks {
		for _, ins := range b.Instrs {
			st, ok := ins.(*ssa.Store)
			if !ok {
				continue
			}
			ia, ok := st.Addr.(*ssa.IndexAddr)
			if !ok {
				continue
			}
			t := types.Unalias(ia.X.Type()).Underlying()
			if p, ok := t.(*types.Pointer); ok {
				t = types.Unalias(p.Elem()).Underlying()
			}
			var elem types.Type
			switch x := t.(type) {
			case *types.Slice:
				elem = x.Elem()
			case *types.Array:
				elem = x.Elem()
			}
			if elem == nil || !pred(elem) {
				continue
			}
			// the variadic / literal array built for an append or a composite literal is not an overwrite
			if al, ok := ia.X.(*ssa.Alloc); ok && (al.Comment == "varargs" || al.Comment == "slicelit" || al.Comment == "complit") {
				continue
			}
			if _, ok := ia.X.(*ssa.MakeSlice); ok {
				continue // filling a freshly made slice
			}
			res = append(res, st)
		}
	}
	return res
}
