#!/bin/bash
# usage: try_neutral.sh <patch.diff>  -- applies a behaviour-preserving patch in a scratch worktree and runs ALL checks; any violation is a false alarm
patch=$(readlink -f "$1")
wt=$(mktemp -d /tmp/neutral.XXXXXX)
git -C /repo worktree add -q --detach "$wt" HEAD || exit 2
trap 'git -C /repo worktree remove --force "$wt" >/dev/null 2>&1; rm -rf "$wt"' EXIT
cd "$wt" && git apply "$patch" || { echo "patch does not apply"; exit 2; }
export GOFLAGS=-mod=mod GOPROXY=off GOSUMDB=off GOTOOLCHAIN=local
go build ./... 2>&1 | tail -3
mkdir -p /tmp/seedrun && cp /verif/known_findings.jsonl /tmp/seedrun/
props=${PROPS:-}
[ -z "$props" ] && props=$(python3 -c "import json;print(' '.join(c['property_id'] for c in json.load(open('/verif/MANIFEST.json'))['checks']))")
for p in $props; do
  out=$(/verif/bin/argotcheck -property $p -tier quick -repo "$wt" -verif /tmp/seedrun 2>&1)
  echo "$out" | grep '^  violation' | cut -c1-330 | sed "s/^/[$p]/"
done
echo "done $(basename $patch)"
