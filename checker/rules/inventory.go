package rules

import (
	"fmt"
	"go/ast"
	"go/types"
	"sort"
	"strings"

	"verif/checker/core"
)

func init() { Registry["INV-dispatch"] = invDispatch }

// invDispatch lists every type switch over a closed interface in the repo
// (development aid; not a property check).
func invDispatch(c *core.Ctx, r *core.Report) {
	for _, p := range c.RepoPkgs() {
		for _, f := range p.Syntax {
			for _, d := range f.Decls {
				fd, ok := d.(*ast.FuncDecl)
				if !ok || fd.Body == nil {
					continue
				}
				for _, ts := range core.TypeSwitchesIn(fd.Body, p.TypesInfo, nil) {
					named, ok := ts.TagType.(*types.Named)
					if !ok {
						continue
					}
					iface, ok := named.Underlying().(*types.Interface)
					if !ok || iface.NumMethods() == 0 {
						continue
					}
					impls := c.Implementers(iface)
					if len(impls) < 3 || len(impls) > 60 {
						continue
					}
					var missing []string
					for _, im := range impls {
						if ts.ClauseFor(im) == nil {
							missing = append(missing, core.ShortType(im))
						}
					}
					sort.Strings(missing)
					def := "none"
					if dc := ts.DefaultClause(); dc != nil {
						def = core.BodyKind(dc.Body, p.TypesInfo)
					}
					name := fd.Name.Name
					if fd.Recv != nil {
						name = core.ShortType(p.TypesInfo.TypeOf(fd.Recv.List[0].Type)) + "." + name
					}
					fmt.Printf("%s %s.%s tag=%s cases=%d impls=%d default=%s missing=%d [%s]\n", c.Pos(ts.Stmt.Pos()),
						strings.TrimPrefix(p.PkgPath, core.Module+"/"), name, core.ShortType(ts.TagType), len(ts.Clauses), len(impls), def, len(missing), strings.Join(missing, ","))
				}
			}
		}
	}
	r.OK("inv", "done", "", "")
}

func init() { Registry["INV-memo"] = invMemo }

// invMemo lists get-or-compute patterns and their key gaps (development aid).
func invMemo(c *core.Ctx, r *core.Report) {
	e := core.NewDepEngine(c)
	for _, fn := range c.RepoFunctions() {
		file := c.Fset.Position(fn.Pos()).Filename
		if strings.HasSuffix(file, "_test.go") || strings.Contains(file, "/testdata/") {
			continue
		}
		for _, m := range core.FindMemos(fn) {
			gaps := core.MemoKeyGaps(e, m, nil)
			sort.Strings(gaps)
			fmt.Printf("%s %s container=%s val=%s gaps=%v\n", c.Pos(m.Update.Pos()), c.FuncName(fn), m.Container, core.DescribeValue(m.Val, 0), gaps)
		}
	}
	r.OK("inv", "done", "", "")
}

func init() { Registry["INV-underlying"] = invUnderlying }

// invUnderlying lists type assertions / type switches on a types.Type to a
// structural type whose operand is not visibly an underlying / core type.
func invUnderlying(c *core.Ctx, r *core.Report) {
	for _, s := range core.StructuralTypeTests(c) {
		fmt.Printf("%s %s %s -> %s [%s]\n", s.Pos, s.Func, s.Operand, s.Target, s.Guard)
	}
	r.OK("inv", "done", "", "")
}

func init() { Registry["INV-bounds"] = invBounds }

func invBounds(c *core.Ctx, r *core.Report) {
	for _, fn := range c.RepoFunctions() {
		file := c.Fset.Position(fn.Pos()).Filename
		if strings.HasSuffix(file, "_test.go") || strings.Contains(file, "/testdata/") {
			continue
		}
		for _, m := range core.ForeignBounds(fn) {
			fmt.Printf("%s %s index=%s bounded-by=len(%s) indexes=%v\n", c.Pos(m.Cmp.Pos()), c.FuncName(fn), core.DescribeValue(m.Index, 0), core.DescribeValue(m.LenOf, 0), m.Indexed)
		}
	}
	r.OK("inv", "done", "", "")
}

func init() { Registry["INV-nilstack"] = invNilStack }

func invNilStack(c *core.Ctx, r *core.Report) {
	for _, fn := range c.RepoFunctions() {
		rel := c.FuncPkgRel(fn)
		if rel != "analysis/taint" && rel != "analysis/backtrace" {
			continue
		}
		for _, d := range core.UnguardedDerefs(c, fn, func(t string) bool { return strings.Contains(t, "dataflow.NodeTree") }) {
			fmt.Printf("%s %s deref of %s\n", c.Pos(d.Pos()), c.FuncName(fn), core.DescribeValue(d.X, 0))
		}
	}
	r.OK("inv", "done", "", "")
}

func init() { Registry["INV-typerec"] = invTypeRec }

func invTypeRec(c *core.Ctx, r *core.Report) {
	for _, fn := range c.RepoFunctions() {
		if strings.HasSuffix(c.Fset.Position(fn.Pos()).Filename, "_test.go") {
			continue
		}
		for _, tr := range core.TypeRecursions(c, fn) {
			fmt.Printf("%s %s step=%s budget=%s seen=%v\n", c.Pos(tr.Call.Pos()), c.FuncName(fn), tr.Step, tr.Budget, tr.HasSeenSet)
		}
	}
	r.OK("inv", "done", "", "")
}
