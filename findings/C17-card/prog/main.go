package main

import "fmt"

func f() (string, string) { return "a", "b" }
func g(s string)          { fmt.Println(s) }

func main() {
	a, b := f()
	g(a + b)
}
