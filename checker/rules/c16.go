package rules

import (
	"fmt"
	"go/ast"
	"go/token"
	"go/types"
	"strings"

	"verif/checker/core"
)

func init() { Registry["C16"] = c16 }

func isNamedIn(t types.Type, pkgRel, name string) bool {
	n, ok := types.Unalias(t).(*types.Named)
	return ok && n.Obj().Name() == name && n.Obj().Pkg() != nil && n.Obj().Pkg().Path() == core.Module+"/"+pkgRel
}

func c16(c *core.Ctx, r *core.Report) {
	r.Explain("R16.bound: a defer is pushed only after the whole stack was scanned for an earlier occurrence (bounded stacks => termination, and 'repeated' <=> a defer on a cycle). R16.immutable: stacks are values - the only append producing a Stack uses a full-slice expression (forces a copy) and no element of a Stack is ever assigned. R16.sorted: the Defer arm sorts (by stackCompare) and de-duplicates before returning, RunDefers returns the singleton of the empty stack, other instructions return their input: every StackSet reaching stackSetUnion is sorted, which its merge and change detection rely on. R16.change: in stackSetUnion every insertion of an element of b sets sameAsA=false. R16.index: producer and consumer use the same index space (BasicBlock.Index and the range index over that block's Instrs; getInstr indexes Parent.Blocks[b].Instrs[i]; the consumer asserts *ssa.Defer). R16.record: the stack set at a RunDefers is recorded before the transfer function resets it. R16.unbounded: the unbounded verdict is the disjunction of all 'repeated' flags.")
	r.NotDecided("exactness of the computed stack sets over all control-flow graphs (algorithmic claim).")
	deferBoundRule(c, r, "R16.bound")
	p := c.Pkg("analysis/defers")
	if p == nil {
		r.Fail("infra.anchor-unresolved", "R16|analysis/defers", "", "package not found")
		return
	}
	info := p.TypesInfo
	// ---- R16.immutable
	nApp := 0
	for _, f := range p.Syntax {
		if strings.HasSuffix(c.Fset.Position(f.Pos()).Filename, "_test.go") {
			continue
		}
		ast.Inspect(f, func(n ast.Node) bool {
			switch x := n.(type) {
			case *ast.CallExpr:
				id, ok := x.Fun.(*ast.Ident)
				if !ok || id.Name != "append" || len(x.Args) == 0 {
					return true
				}
				rt := info.TypeOf(x)
				if !isNamedIn(rt, "analysis/defers", "Stack") && !isNamedIn(info.TypeOf(x.Args[0]), "analysis/defers", "Stack") {
					return true
				}
				nApp++
				se, ok := ast.Unparen(x.Args[0]).(*ast.SliceExpr)
				r.Check(ok && se.Slice3 && se.Max != nil, "R16.immutable", fmt.Sprintf("analysis/defers|append-to-Stack#%d", nApp), c.Pos(x.Pos()),
					"append to a Stack goes through a full-slice expression (always copies)", "append to a Stack may write into the shared backing array of another stack of the set: stacks of different paths get corrupted")
			case *ast.AssignStmt:
				for _, lhs := range x.Lhs {
					if ix, ok := lhs.(*ast.IndexExpr); ok && isNamedIn(info.TypeOf(ix.X), "analysis/defers", "Stack") {
						r.Fail("R16.immutable", "analysis/defers|element-store", c.Pos(x.Pos()), "an element of a Stack is assigned in place: stacks are shared between sets and must be immutable")
					}
				}
			}
			return true
		})
	}
	r.Floor("R16.immutable", 1, "stackPushed")

	// ---- R16.sorted on dataflowTransfer
	if fd, _ := c.Decl("analysis/defers", "dataflowTransfer"); fd != nil {
		for _, ts := range core.TypeSwitchesIn(fd.Body, info, nil) {
			for _, cl := range ts.Clauses {
				for _, t := range cl.Types {
					if t == nil {
						continue
					}
					switch core.ShortType(t) {
					case "*ssa.Defer":
						sorted := exprAny(cl.Clause, func(n ast.Node) bool {
							call, ok := n.(*ast.CallExpr)
							if !ok {
								return false
							}
							o := core.CalleeObj(call, info)
							if o == nil || o.Pkg() == nil {
								return false
							}
							isSort := (o.Pkg().Path() == "sort" && (o.Name() == "Slice" || o.Name() == "SliceStable")) || (o.Pkg().Path() == "slices" && strings.HasPrefix(o.Name(), "Sort"))
							if !isSort {
								return false
							}
							return exprAny(call, func(m ast.Node) bool {
								id, ok := m.(*ast.Ident)
								return ok && id.Name == "stackCompare"
							})
						})
						r.Check(sorted, "R16.sorted", "analysis/defers.dataflowTransfer|Defer-arm-sorts", c.Pos(cl.Clause.Pos()), "the Defer arm sorts the new stacks with stackCompare before de-duplicating",
							"the Defer arm no longer sorts its result by stackCompare: stackSetUnion's sorted merge mis-detects changes and drops or duplicates stacks")
						dedup := exprAny(cl.Clause, func(n ast.Node) bool {
							be, ok := n.(*ast.BinaryExpr)
							if !ok || be.Op != token.NEQ {
								return false
							}
							return exprAny(be, func(m ast.Node) bool {
								id, ok := m.(*ast.Ident)
								return ok && id.Name == "stackCompare"
							})
						})
						r.Check(dedup, "R16.sorted", "analysis/defers.dataflowTransfer|Defer-arm-dedups", c.Pos(cl.Clause.Pos()), "adjacent equal stacks are removed", "the Defer arm does not de-duplicate: the set representation contains duplicates and union change detection never stabilises or over-reports")
					case "*ssa.RunDefers":
						// returns StackSet{Stack{}}
						single := exprAny(cl.Clause, func(n ast.Node) bool {
							lit, ok := n.(*ast.CompositeLit)
							if !ok || !isNamedIn(info.TypeOf(lit), "analysis/defers", "StackSet") || len(lit.Elts) != 1 {
								return false
							}
							inner, ok := lit.Elts[0].(*ast.CompositeLit)
							return ok && len(inner.Elts) == 0
						})
						r.Check(single, "R16.sorted", "analysis/defers.dataflowTransfer|RunDefers-arm-resets", c.Pos(cl.Clause.Pos()), "RunDefers resets to the singleton of the empty stack", "RunDefers does not reset the state to {[]}: defers already run are reported again at later exits")
					}
				}
			}
		}
	}
	r.Floor("R16.sorted", 3, "sort, dedup, reset")

	// ---- R16.change
	if fd, _ := c.Decl("analysis/defers", "stackSetUnion"); fd != nil {
		n := 0
		var walk func(list []ast.Stmt)
		walk = func(list []ast.Stmt) {
			for i, st := range list {
				if as, ok := st.(*ast.AssignStmt); ok && len(as.Rhs) == 1 {
					if call, ok := as.Rhs[0].(*ast.CallExpr); ok {
						if id, ok := call.Fun.(*ast.Ident); ok && id.Name == "append" && len(call.Args) == 2 {
							if a, ok := call.Args[1].(*ast.Ident); ok && strings.HasPrefix(a.Name, "b") {
								// element of b inserted: sameAsA = false must follow in the same block
								n++
								found := false
								for _, later := range list[i+1:] {
									if a2, ok := later.(*ast.AssignStmt); ok && len(a2.Lhs) == 1 {
										if l, ok := a2.Lhs[0].(*ast.Ident); ok && l.Name == "sameAsA" {
											if v, ok := a2.Rhs[0].(*ast.Ident); ok && v.Name == "false" {
												found = true
											}
										}
									}
								}
								r.Check(found, "R16.change", fmt.Sprintf("analysis/defers.stackSetUnion|insert-from-b#%d", n), c.Pos(st.Pos()),
									"inserting an element of b clears sameAsA", "an element of b is inserted without clearing sameAsA: the successor block is not re-analysed and stacks of that path are missing at later exits")
							}
						}
					}
				}
				switch x := st.(type) {
				case *ast.IfStmt:
					walk(x.Body.List)
					for e := x.Else; e != nil; {
						switch y := e.(type) {
						case *ast.BlockStmt:
							walk(y.List)
							e = nil
						case *ast.IfStmt:
							walk(y.Body.List)
							e = y.Else
						default:
							e = nil
						}
					}
				case *ast.ForStmt:
					walk(x.Body.List)
				case *ast.RangeStmt:
					walk(x.Body.List)
				}
			}
		}
		walk(fd.Body.List)
		r.Floor("R16.change", 2, "two insertion sites")
	} else {
		r.Fail("infra.anchor-unresolved", "R16.change|stackSetUnion", "", "not found")
	}

	// ---- R16.index / R16.record / R16.unbounded on AnalyzeFunction
	if fd, _ := c.Decl("analysis/defers", "AnalyzeFunction"); fd != nil {
		okIdx, okRec, okUnb := false, false, false
		ast.Inspect(fd.Body, func(n ast.Node) bool {
			rs, ok := n.(*ast.RangeStmt)
			if !ok {
				return true
			}
			se, ok := ast.Unparen(rs.X).(*ast.SelectorExpr)
			if !ok || se.Sel.Name != "Instrs" {
				return true
			}
			blk, _ := ast.Unparen(se.X).(*ast.Ident)
			key, _ := rs.Key.(*ast.Ident)
			val, _ := rs.Value.(*ast.Ident)
			if blk == nil || key == nil || val == nil {
				return true
			}
			recPos, callPos := token.NoPos, token.NoPos
			ast.Inspect(rs.Body, func(m ast.Node) bool {
				switch x := m.(type) {
				case *ast.CallExpr:
					if o := core.CalleeObj(x, info); o != nil && o.Name() == "dataflowTransfer" && len(x.Args) == 4 {
						callPos = x.Pos()
						a0 := selPath(x.Args[0])
						a1, _ := ast.Unparen(x.Args[1]).(*ast.Ident)
						var a2 *ast.Ident
						if u, ok := ast.Unparen(x.Args[2]).(*ast.UnaryExpr); ok && u.Op == token.AND {
							a2, _ = u.X.(*ast.Ident)
						}
						if len(a0) == 2 && a0[0] == blk.Name && a0[1] == "Index" && a1 != nil && a1.Name == key.Name && a2 != nil && a2.Name == val.Name {
							okIdx = true
						}
					}
				case *ast.AssignStmt:
					if len(x.Lhs) == 1 {
						if ix, ok := x.Lhs[0].(*ast.IndexExpr); ok {
							if mt, ok := info.TypeOf(ix.X).Underlying().(*types.Map); ok && core.SSATypeName(mt.Key()) == "RunDefers" {
								recPos = x.Pos()
							}
						}
						// anyRepeated = anyRepeated || repeated
						if l, ok := x.Lhs[0].(*ast.Ident); ok && len(x.Rhs) == 1 {
							if be, ok := x.Rhs[0].(*ast.BinaryExpr); ok && be.Op == token.LOR {
								if a, ok := be.X.(*ast.Ident); ok && a.Name == l.Name {
									okUnb = true
								}
							}
						}
					}
				}
				return true
			})
			if recPos.IsValid() && callPos.IsValid() && recPos < callPos {
				okRec = true
			}
			return true
		})
		r.Check(okIdx, "R16.index", "analysis/defers.AnalyzeFunction|producer", c.Pos(fd.Pos()), "the transfer function receives (block.Index, range index over block.Instrs, that instruction)", "the indices pushed on defer stacks are not (BasicBlock.Index, position in Instrs) of the instruction transferred: the consumer resolves them to the wrong instruction")
		r.Check(okRec, "R16.record", "analysis/defers.AnalyzeFunction|record-before-reset", c.Pos(fd.Pos()), "the stack set at a RunDefers is recorded before the transfer resets it", "the set recorded for a RunDefers is taken after the reset: every exit reports the empty stack only")
		r.Check(okUnb, "R16.unbounded", "analysis/defers.AnalyzeFunction|accumulate-repeated", c.Pos(fd.Pos()), "the unbounded verdict accumulates every repeated flag", "the repeated flag is overwritten instead of accumulated: a function with a defer in a loop can be reported bounded")
	} else {
		r.Fail("infra.anchor-unresolved", "R16.index|AnalyzeFunction", "", "not found")
	}
	// consumer
	if fd, pp := c.Decl("analysis/dataflow", "IntraAnalysisState.getInstr"); fd != nil {
		params := fd.Type.Params.List
		var names []string
		for _, fl := range params {
			for _, n := range fl.Names {
				names = append(names, n.Name)
			}
		}
		okB, okI := false, false
		ast.Inspect(fd.Body, func(n ast.Node) bool {
			ix, ok := n.(*ast.IndexExpr)
			if !ok {
				return true
			}
			id, _ := ast.Unparen(ix.Index).(*ast.Ident)
			sp := selPath(ix.X)
			if id != nil && len(names) == 2 && len(sp) > 0 {
				if sp[len(sp)-1] == "Blocks" && id.Name == names[0] {
					okB = true
				}
				if sp[len(sp)-1] == "Instrs" && id.Name == names[1] {
					okI = true
				}
			}
			return true
		})
		_ = pp
		r.Check(okB && okI, "R16.index", "analysis/dataflow.IntraAnalysisState.getInstr|consumer", c.Pos(fd.Pos()), "consumer indexes Parent.Blocks[block].Instrs[ins] with the same index space", "consumer does not index Blocks by the first and Instrs by the second component: deferred calls are simulated for the wrong instructions")
	} else {
		r.Fail("infra.anchor-unresolved", "R16.index|getInstr", "", "not found")
	}
	if fd, pp := c.Decl("analysis/dataflow", "IntraAnalysisState.doDefersStackSimulation"); fd != nil {
		asserts := exprAny(fd.Body, func(n ast.Node) bool {
			ta, ok := n.(*ast.TypeAssertExpr)
			return ok && ta.Type != nil && core.SSATypeName(pp.TypesInfo.TypeOf(ta.Type)) == "Defer"
		})
		r.Check(asserts, "R16.index", "analysis/dataflow.IntraAnalysisState.doDefersStackSimulation|asserts-defer", c.Pos(fd.Pos()), "consumer checks that every stack entry resolves to a *ssa.Defer", "consumer no longer checks that stack entries are defers")
	}
	r.Floor("R16.index", 3, "producer, consumer, assertion")
}
