package rules

import (
	"fmt"
	"strings"
	"sync"

	"golang.org/x/tools/go/ssa"

	"verif/checker/core"
)

var (
	guardControlOnce sync.Once
	guardControlErr  string
)

// guardKeyRule: a "do it once" guard inside a loop - `if !done[k] { done[k] =
// true; effect(x) }` over a set - must be keyed by everything the guarded
// effect is applied to: if the effect's operands read parts of the loop's
// current element (fields of the popped work item, of the range element) that
// the key does not include, the effect is skipped for every later element that
// shares the key but differs there. Embedded positive controls.
func guardKeyRule(c *core.Ctx, r *core.Report, rule string, scope func(fn *ssa.Function, rel string) bool, consequence string) {
	r.Explain(rule + ": every once-guard over a set inside a loop (lookup, branch on absence, insertion of the same key, then calls) is keyed by all the parts of the per-iteration value (loop-header phi / range element, field-sensitive) that the guarded calls' operands read; embedded positive controls.")
	guardControlOnce.Do(func() {
		p, err := core.Fixture("guardkey")
		if err != nil {
			guardControlErr = err.Error()
			return
		}
		fns := core.FixtureFuncs(p)
		for name, want := range map[string]int{"Coarse": 1, "Fine": 0, "FineDest": 0} {
			if fns[name] == nil || len(core.GuardGaps(c, fns[name])) != want {
				got := -1
				if fns[name] != nil {
					got = len(core.GuardGaps(c, fns[name]))
				}
				guardControlErr = fmt.Sprintf("fixture %s: %d gaps, want %d", name, got, want)
				return
			}
		}
	})
	if guardControlErr != "" {
		r.Fail("infra.control", rule+"|guardkey-fixture", "", "positive control failed: "+guardControlErr)
		return
	}
	r.OK(rule, "engine|positive-controls", "", "embedded fixture: coarse guard key reported, complete keys not reported")
	n := 0
	for _, fn := range c.RepoFunctions() {
		if strings.HasSuffix(c.Fset.Position(fn.Pos()).Filename, "_test.go") || !scope(fn, c.FuncPkgRel(fn)) {
			continue
		}
		for i, g := range core.GuardGaps(c, fn) {
			n++
			r.Fail(rule, fmt.Sprintf("%s|once-guard#%d", c.FuncName(fn), i+1), c.Pos(g.Lookup.Pos()),
				fmt.Sprintf("the once-guard is keyed by {%s} but the guarded call at %s is applied to %s: it is skipped for every later element with the same key; %s", g.Key, c.Pos(g.Effect.Pos()), strings.Join(g.Missing, ", "), consequence))
		}
	}
	r.Extra[rule+"_gaps"] = n
}
