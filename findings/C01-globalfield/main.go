package main

import "fmt"

type T struct{ a, b string }

var g T

func source1() string { return "tainted" }
func sink1(s string)   { fmt.Println(s) }

func w() { g.a = source1() } // store into a field of a global struct
func r() { sink1(g.a) }

func main() {
	w()
	r()
}
