package rules

import (
	"go/ast"
	"go/token"
	"go/types"
	"sort"
	"strings"

	"golang.org/x/tools/go/ssa"

	"verif/checker/core"
)

func init() { Registry["C18"] = c18 }

// operands of the function-value scan that cannot be (or contain) a function value
var noFuncOperand = map[string]string{
	"SliceToArrayPointer.X": "operand is a slice; a *ssa.Function (function-typed) can never appear there, and instruction-defined operands are visited as instructions",
	"MultiConvert.X":        "only in uninstantiated generic bodies (R07.mode)",
	"Defer.DeferStack":      "range-over-func defer stack handle, not a function value",
}

func c18(c *core.Ctx, r *core.Report) {
	r.Explain("R18.operands: the address-taken-function scan (reachability.preTraversalVisitValuesInstruction) must read, for every ssa.Instruction kind, every operand field that go/ssa's own Operands method exposes for that kind (a *ssa.Function can appear as any operand: call value, call argument, stored value, compared value, ...); kinds without a case are discharged only if they have no operand that can hold a function value. R18.calls: findCallees' switch arms for call instructions are non-empty or the callee operand is covered by the operand scan (checked via R18.operands on Call.Value). R18.iface: if the methods marked at a MakeInterface depend on the static interface type, conversions that widen the callable method set (TypeAssert to an interface, ChangeInterface) must be handled too. R18.roots: entry selection is monotone in the two exclusion flags (each disjunct is guarded by the negated flag). R18.memo: any get-or-compute cache in the reachability package stores only values whose inputs all contribute to the cache key (interprocedural data dependence; positive controls from an embedded fixture are re-run on every check).")
	r.NotDecided("containment of the pointer-analysis call graph in the reported set; reflection; anything about executions.")
	tab, probs := c.OperandTable()
	for _, p := range probs {
		r.Fail("infra.operand-table", p, "", "cannot extract go/ssa operand table")
	}
	// SSA, helpers inlined: a field read F on a value of static type *ssa.K anywhere in the scan (the functions of the
	// package that take an ssa.Instruction, and what they call) is a visit of operand K.F; reads through a
	// CallCommon obtained from x.Common() count for the kind(s) x can have.
	_, instrIface := c.NamedIface(core.SSAPath, "Instruction")
	var scanRoots []*ssa.Function
	for _, fn := range c.RepoFunctions() {
		if c.FuncPkgRel(fn) != "analysis/reachability" || strings.HasSuffix(c.Fset.Position(fn.Pos()).Filename, "_test.go") {
			continue
		}
		for _, p := range fn.Params {
			if n, ok := types.Unalias(p.Type()).(*types.Named); ok && n.Obj().Name() == "Instruction" && n.Obj().Pkg() != nil && n.Obj().Pkg().Path() == core.SSAPath {
				scanRoots = append(scanRoots, fn)
			}
		}
	}
	if len(scanRoots) == 0 || instrIface == nil {
		r.Fail("infra.anchor-unresolved", "R18.operands|analysis/reachability.<scan of ssa.Instruction>", "", "no function of the package takes an ssa.Instruction")
		return
	}
	scanName := "analysis/reachability.preTraversalVisitValuesInstruction"
	read := map[string]bool{} // "Kind.Path"
	kindsOf := func(t types.Type) []string {
		if k := core.SSATypeName(t); k != "" && k != "CallCommon" && k != "SelectState" {
			if k == "CallInstruction" {
				return []string{"Call", "Go", "Defer"}
			}
			return []string{k}
		}
		return nil
	}
	for _, root := range scanRoots {
		r.Analysed(c.FuncName(root))
		var fns []*ssa.Function
		var collect func(f *ssa.Function)
		collect = func(f *ssa.Function) {
			fns = append(fns, f)
			for _, a := range f.AnonFuncs {
				collect(a)
			}
		}
		collect(root)
		for _, f := range fns {
			for _, ii := range core.InlinedInstrs(c, f, c.Depth(3), func(ins ssa.Instruction) bool {
				switch x := ins.(type) {
				case *ssa.FieldAddr:
					return core.SSATypeName(x.X.Type()) != ""
				case *ssa.Field:
					return core.SSATypeName(x.X.Type()) != ""
				}
				return false
			}) {
				path, rootV := ii.PathAndRoot(ii.Ins.(ssa.Value))
				if path == "" || rootV == nil {
					continue
				}
				kinds := kindsOf(rootV.Type())
				if call, ok := rootV.(*ssa.Call); ok && len(kinds) == 0 {
					// x.Common(): a CallCommon of the kind(s) of x
					if call.Call.IsInvoke() && call.Call.Method.Name() == "Common" {
						kinds = kindsOf(call.Call.Value.Type())
						path = "Call." + path
					} else if sc := call.Call.StaticCallee(); sc != nil && sc.Name() == "Common" && len(call.Call.Args) > 0 {
						kinds = kindsOf(call.Call.Args[0].Type())
						path = "Call." + path
					}
				}
				for _, k := range kinds {
					read[k+"."+path] = true
				}
			}
		}
	}
	for _, im := range c.Implementers(instrIface) {
		name := strings.TrimPrefix(core.ShortType(im), "*ssa.")
		ops := tab[name]
		if len(ops) == 0 {
			r.OK("R18.operands", scanName+"|"+name, "", "kind has no operands")
			continue
		}
		for _, op := range ops {
			key := scanName + "|" + name + "." + op
			switch {
			case read[name+"."+op]:
				r.OK("R18.operands", key, "", "operand is visited")
			case noFuncOperand[name+"."+op] != "":
				r.Except("R18.operands", key, "", noFuncOperand[name+"."+op])
			default:
				r.Fail("R18.operands", key, c.Pos(scanRoots[0].Pos()), "operand "+name+"."+op+" is not scanned for function values (no read of it on a value of kind "+name+" in the scan or the helpers it calls): a function that is only referenced there (e.g. passed as an argument of a go/defer call) is reported unreachable although it runs")
			}
		}
	}
	r.Floor("R18.operands", 50, "~60 operand fields")

	// ---- R18.iface
	fic := c.Func("analysis/reachability", "findInterfaceCallees")
	fcf := c.Func("analysis/reachability", "findCallees")
	if fic == nil || fcf == nil {
		r.Fail("infra.anchor-unresolved", "R18.iface|analysis/reachability.findInterfaceCallees/findCallees", "", "not found")
	} else {
		r.Analysed("analysis/reachability.findInterfaceCallees")
		dep := false
		for _, p := range fic.Params {
			if types.IsInterface(p.Type()) && p.Type().String() == "go/types.Type" && p.Referrers() != nil && len(*p.Referrers()) > 0 {
				for _, ref := range *p.Referrers() {
					if _, isDbg := ref.(interface{ IsDebugRef() }); !isDbg {
						dep = true
					}
				}
			}
		}
		// arms of findCallees (type switch or if-chain: both are comma-ok assertions on SSA) that do something
		handles := map[string]bool{}
		for _, k := range []string{"MakeInterface", "TypeAssert", "ChangeInterface"} {
			entries, _ := core.TypeCaseEntry(fcf, k)
			for _, e := range entries {
				for _, b := range fcf.Blocks {
					if !e.Dominates(b) {
						continue
					}
					for _, ins := range b.Instrs {
						if _, isCall := ins.(ssa.CallInstruction); isCall {
							handles["*ssa."+k] = true
						}
					}
				}
			}
		}
		ok := !dep || (handles["*ssa.TypeAssert"] && handles["*ssa.ChangeInterface"])
		r.Check(ok, "R18.iface", "analysis/reachability.findInterfaceCallees|static-interface-filter", c.Pos(fic.Pos()),
			"method marking at interface conversions does not under-approximate later widening conversions",
			"the methods marked at a MakeInterface are filtered by the methods of the conversion's static interface, while TypeAssert-to-interface and ChangeInterface (which make further methods of the same dynamic value callable) are not handled: `var r io.Reader = f; r.(io.Closer).Close()` runs (*T).Close without it being in the reachable set")
		r.Check(handles["*ssa.MakeInterface"], "R18.iface", "analysis/reachability.findCallees|MakeInterface-arm", c.Pos(fcf.Pos()),
			"interface conversions mark methods of the converted type", "no arm for MakeInterface: methods called through interfaces are never reachable")
	}

	// ---- R18.roots
	if fd, p := c.Decl("analysis/reachability", "findEntryPoints"); fd != nil {
		r.Analysed("analysis/reachability.findEntryPoints")
		var flags []types.Object
		for _, fl := range fd.Type.Params.List {
			if b, ok := p.TypesInfo.TypeOf(fl.Type).Underlying().(*types.Basic); ok && b.Kind() == types.Bool {
				for _, n := range fl.Names {
					flags = append(flags, p.TypesInfo.ObjectOf(n))
				}
			}
		}
		// every use of a flag must be under a NOT, inside a conjunction, in an if condition
		n := 0
		bad := []string{}
		var stack []ast.Node
		ast.Inspect(fd.Body, func(nd ast.Node) bool {
			if nd == nil {
				stack = stack[:len(stack)-1]
				return true
			}
			stack = append(stack, nd)
			id, ok := nd.(*ast.Ident)
			if !ok {
				return true
			}
			isFlag := false
			for _, f := range flags {
				if p.TypesInfo.ObjectOf(id) == f {
					isFlag = true
				}
			}
			if !isFlag {
				return true
			}
			n++
			negated := false
			if len(stack) >= 2 {
				if u, ok := stack[len(stack)-2].(*ast.UnaryExpr); ok && u.Op == token.NOT {
					negated = true
				}
			}
			if !negated {
				bad = append(bad, id.Name+"@"+c.Pos(id.Pos()))
			}
			return true
		})
		sort.Strings(bad)
		r.Check(n >= 2 && len(bad) == 0, "R18.roots", "analysis/reachability.findEntryPoints|monotone", c.Pos(fd.Pos()),
			"exclusion flags only occur negated: setting a flag can only remove roots", "an exclusion flag is used un-negated ("+strings.Join(bad, ",")+"): excluding main/init could add roots, the reported set would not shrink monotonically")
	} else {
		r.Fail("infra.anchor-unresolved", "R18.roots|analysis/reachability.findEntryPoints", "", "not found")
	}

	c18ifaceMethods(c, r)
	// ---- R18.memo
	memoRule(c, r, "R18.memo", func(fn *ssa.Function, rel string) bool { return rel == "analysis/reachability" },
		"methods made callable by a conversion to a different interface (or any callee depending on the missing input) are not marked reachable")
}
