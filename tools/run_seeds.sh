#!/bin/bash
# Runs every seeded change under /verif/seeded (and the positive-control mutants under tools/mutants)
# against the check of the property it breaks; prints CAUGHT/MISSED per seed.
for d in /verif/seeded/*/; do
  id=$(basename $d); prop=${id%%-*}
  out=$(/verif/tools/try_seed.sh $d/patch.diff $prop 2>&1)
  n=$(echo "$out" | grep -c '^  violation')
  if echo "$out" | grep -q "does not apply"; then echo "$id: PATCH DOES NOT APPLY"; continue; fi
  if [ "$n" -gt 0 ]; then echo "$id: CAUGHT ($n) $(echo "$out" | grep '^  violation' | head -1 | cut -c13-120)"; else echo "$id: MISSED"; fi
done
for m in /verif/tools/mutants/*.diff; do
  [ -e "$m" ] || continue
  prop=$(basename $m | cut -d- -f1)
  out=$(/verif/tools/try_seed.sh $m $prop 2>&1)
  n=$(echo "$out" | grep -c '^  violation')
  if echo "$out" | grep -q "does not apply"; then echo "mutant $(basename $m): PATCH DOES NOT APPLY"; continue; fi
  if [ "$n" -gt 0 ]; then echo "mutant $(basename $m): CAUGHT ($n)"; else echo "mutant $(basename $m): MISSED"; fi
done
