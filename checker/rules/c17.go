package rules

import (
	"fmt"
	"go/types"
	"sort"
	"strings"

	"golang.org/x/tools/go/ssa"

	"verif/checker/core"
)

func init() { Registry["C17"] = c17 }

const dfPath = core.Module + "/analysis/dataflow"

// sameExpr: structural equality of two SSA values built from loads,
// field/index addressing, interface boxing and extractions of the same roots.
func sameExpr(a, b ssa.Value, depth int) bool {
	if a == b {
		return true
	}
	if depth > 8 || a == nil || b == nil {
		return false
	}
	switch x := a.(type) {
	case *ssa.MakeInterface:
		return sameExpr(x.X, b, depth+1)
	case *ssa.ChangeInterface:
		return sameExpr(x.X, b, depth+1)
	case *ssa.TypeAssert:
		if !x.CommaOk {
			return sameExpr(x.X, b, depth+1)
		}
	}
	switch y := b.(type) {
	case *ssa.MakeInterface:
		return sameExpr(a, y.X, depth+1)
	case *ssa.ChangeInterface:
		return sameExpr(a, y.X, depth+1)
	case *ssa.TypeAssert:
		if !y.CommaOk {
			return sameExpr(a, y.X, depth+1)
		}
	}
	switch x := a.(type) {
	case *ssa.UnOp:
		y, ok := b.(*ssa.UnOp)
		return ok && x.Op == y.Op && sameExpr(x.X, y.X, depth+1)
	case *ssa.FieldAddr:
		y, ok := b.(*ssa.FieldAddr)
		return ok && x.Field == y.Field && sameExpr(x.X, y.X, depth+1)
	case *ssa.Field:
		y, ok := b.(*ssa.Field)
		return ok && x.Field == y.Field && sameExpr(x.X, y.X, depth+1)
	case *ssa.IndexAddr:
		y, ok := b.(*ssa.IndexAddr)
		return ok && sameExpr(x.X, y.X, depth+1) && sameExpr(x.Index, y.Index, depth+1)
	case *ssa.Index:
		y, ok := b.(*ssa.Index)
		return ok && sameExpr(x.X, y.X, depth+1) && sameExpr(x.Index, y.Index, depth+1)
	case *ssa.Lookup:
		y, ok := b.(*ssa.Lookup)
		return ok && sameExpr(x.X, y.X, depth+1) && sameExpr(x.Index, y.Index, depth+1)
	case *ssa.Extract:
		y, ok := b.(*ssa.Extract)
		return ok && x.Index == y.Index && sameExpr(x.Tuple, y.Tuple, depth+1)
	case *ssa.Const:
		y, ok := b.(*ssa.Const)
		return ok && x.Value != nil && y.Value != nil && x.Value.ExactString() == y.Value.ExactString()
	}
	return false
}

// mapOwner returns the node value whose store the map value m is: X for
// load(FieldAddr(X, f)) and for the result of X.Out()/X.In().
func mapOwner(m ssa.Value) ssa.Value {
	switch x := m.(type) {
	case *ssa.UnOp:
		if fa, ok := x.X.(*ssa.FieldAddr); ok {
			return fa.X
		}
	case *ssa.Call:
		if x.Call.IsInvoke() && (x.Call.Method.Name() == "Out" || x.Call.Method.Name() == "In") {
			return x.Call.Value
		}
		if sc := x.Call.StaticCallee(); sc != nil && (sc.Name() == "Out" || sc.Name() == "In") && len(x.Call.Args) == 1 {
			return x.Call.Args[0]
		}
	case *ssa.Phi:
		// m := a.out ; if m == nil { m = make } : take any non-make edge
		for _, e := range x.Edges {
			if o := mapOwner(e); o != nil {
				return o
			}
		}
	}
	return nil
}

type edgeWrite struct {
	ins        ssa.Instruction
	owner, key ssa.Value
	isOut      bool
	viaHelper  *ssa.Function
}

func c17(c *core.Ctx, r *core.Report) {
	r.Explain("R17.own: every write (MapUpdate, delete, whole-map assignment) to a forward store (map[GraphNode][]EdgeInfo) or backward store (map[GraphNode]EdgeInfo) in the whole repository is enumerated from SSA; writers must live in package dataflow. R17.pair: inside each writer, every write X.out[Y] has a write Y.in[X] (direct, or through a pure in-writer helper such as addInEdge whose owner/key parameters are resolved) that post-dominates or dominates it, with owner/key swapped (structural value identity), and vice versa for in-writes (an access to the owner's out-store must dominate). R17.accessor: every node kind that has a store field returns exactly that field from Out()/In(). R17.card: the two stores must have the same per-neighbour multiplicity. R17.registry: every assignment of CallNode.CalleeSummary / ClosureNode.ClosureSummary is paired with registration of the node in that summary's Callsites / ReferringMakeClosures (directly or through a registering resolver). R17.globals: Read/WriteLocations are written only by addReadLoc/addWriteLoc, called only from SyncGlobals, which RunIntraProcedural calls before setting Constructed.")
	r.NotDecided("graph consistency after arbitrary on-demand sequences beyond these per-site guarantees; equality of the EdgeInfo payload (RelPath, Cond) on both sides.")
	dfp := c.Pkg("analysis/dataflow")
	if dfp == nil {
		r.Fail("infra.anchor-unresolved", "R17|analysis/dataflow", "", "package not found")
		return
	}
	gn, _ := c.NamedIface(dfPath, "GraphNode")
	eiObj, _ := dfp.Types.Scope().Lookup("EdgeInfo").(*types.TypeName)
	if gn == nil || eiObj == nil {
		r.Fail("infra.anchor-unresolved", "R17|GraphNode/EdgeInfo", "", "types not found")
		return
	}
	outT := types.NewMap(gn, types.NewSlice(eiObj.Type()))
	inT := types.NewMap(gn, eiObj.Type())
	isOutT := func(t types.Type) bool { return types.Identical(types.Unalias(t), outT) }
	isInT := func(t types.Type) bool { return types.Identical(types.Unalias(t), inT) }

	// ---- collect writes
	writes := map[*ssa.Function][]edgeWrite{}
	lookups := map[*ssa.Function][]*ssa.Lookup{}
	var wholeAssign []ssa.Instruction
	for _, fn := range c.RepoFunctions() {
		for _, b := range fn.Blocks {
			for _, ins := range b.Instrs {
				switch x := ins.(type) {
				case *ssa.MapUpdate:
					t := x.Map.Type()
					if isOutT(t) || isInT(t) {
						writes[fn] = append(writes[fn], edgeWrite{ins: x, owner: mapOwner(x.Map), key: x.Key, isOut: isOutT(t)})
					}
				case *ssa.Lookup:
					if isOutT(x.X.Type()) {
						lookups[fn] = append(lookups[fn], x)
					}
				case *ssa.Call:
					if bi, ok := x.Call.Value.(*ssa.Builtin); ok && (bi.Name() == "delete" || bi.Name() == "clear") && len(x.Call.Args) > 0 {
						t := x.Call.Args[0].Type()
						if isOutT(t) || isInT(t) {
							r.Fail("R17.own", c.FuncName(fn)+"|"+bi.Name(), c.Pos(x.Pos()), "edge store entry removed with "+bi.Name()+": the mirrored entry on the other side is not removed")
						}
					}
				case *ssa.Store:
					if isOutT(x.Val.Type()) || isInT(x.Val.Type()) {
						wholeAssign = append(wholeAssign, x)
					}
				}
			}
		}
	}
	// helpers: functions with in-writes only whose map owner derives from a parameter (through a type assertion) and key is a parameter
	type helperSig struct{ ownerIdx, keyIdx int }
	helpers := map[*ssa.Function]helperSig{}
	paramIdx := func(fn *ssa.Function, v ssa.Value) int {
		for d := 0; d < 6 && v != nil; d++ {
			for i, p := range fn.Params {
				if p == v {
					return i
				}
			}
			switch x := v.(type) {
			case *ssa.TypeAssert:
				v = x.X
			case *ssa.Extract:
				v = x.Tuple
			case *ssa.MakeInterface:
				v = x.X
			case *ssa.ChangeInterface:
				v = x.X
			default:
				return -1
			}
		}
		return -1
	}
	for fn, ws := range writes {
		allIn := true
		oi, ki := -2, -2
		for _, w := range ws {
			if w.isOut {
				allIn = false
				break
			}
			o, k := paramIdx(fn, w.owner), paramIdx(fn, w.key)
			if o < 0 || k < 0 || (oi != -2 && (o != oi || k != ki)) {
				allIn = false
				break
			}
			oi, ki = o, k
		}
		if allIn && len(lookups[fn]) == 0 && oi >= 0 {
			helpers[fn] = helperSig{oi, ki}
		}
	}
	// add helper call sites as in-writes of the caller
	for _, fn := range c.RepoFunctions() {
		for _, b := range fn.Blocks {
			for _, ins := range b.Instrs {
				call, ok := ins.(ssa.CallInstruction)
				if !ok {
					continue
				}
				sc := call.Common().StaticCallee()
				if hs, ok := helpers[sc]; ok && sc != fn {
					args := call.Common().Args
					if hs.ownerIdx < len(args) && hs.keyIdx < len(args) {
						writes[fn] = append(writes[fn], edgeWrite{ins: ins, owner: args[hs.ownerIdx], key: args[hs.keyIdx], isOut: false, viaHelper: sc})
					}
				}
			}
		}
	}
	var writers []*ssa.Function
	for fn := range writes {
		writers = append(writers, fn)
	}
	sort.Slice(writers, func(i, j int) bool { return writers[i].String() < writers[j].String() })
	nOut, nIn := 0, 0
	for _, fn := range writers {
		name := c.FuncName(fn)
		r.Analysed(name)
		rel := c.FuncPkgRel(fn)
		r.Check(rel == "analysis/dataflow", "R17.own", name+"|package", c.Pos(fn.Pos()),
			"edge-store writer lives in package dataflow", "edge store written from package "+rel+": only package dataflow may write edges (and must mirror them)")
		if _, isHelper := helpers[fn]; isHelper {
			r.OK("R17.pair", name+"|helper", c.Pos(fn.Pos()), "pure in-writer helper (owner/key are parameters); its call sites are checked in the callers")
			// every caller must be a writer that is checked below: ensured because call sites were added
			continue
		}
		pd := core.PostDom(fn)
		ws := writes[fn]
		cnt := map[string]int{}
		for _, w := range ws {
			kind := "in"
			if w.isOut {
				kind = "out"
				nOut++
			} else {
				nIn++
			}
			cnt[kind]++
			key := fmt.Sprintf("%s|%s-write#%d", name, kind, cnt[kind])
			if w.owner == nil {
				r.Fail("R17.pair", key, c.Pos(w.ins.Pos()), "cannot resolve which node's store is written (undecided)")
				continue
			}
			found := false
			if w.isOut {
				for _, v := range ws {
					if v.isOut || v.owner == nil {
						continue
					}
					if !(sameExpr(w.owner, v.key, 0) && sameExpr(w.key, v.owner, 0)) {
						continue
					}
					wb, vb := w.ins.Block(), v.ins.Block()
					if pd[wb.Index][vb.Index] || core.InstrDominates(v.ins, w.ins) {
						found = true
					}
				}
				r.Check(found, "R17.pair", key, c.Pos(w.ins.Pos()), "X.out[Y] is mirrored by Y.in[X] on every path",
					"forward edge X.out[Y] is written but no write of Y.in[X] (same X, Y) post-dominates or dominates it: the edge is outgoing but not incoming, backward traversal misses it")
			} else {
				// an access (update or lookup) to the key's out-store with key = owner must dominate
				for _, v := range ws {
					if v.isOut && v.owner != nil && sameExpr(w.owner, v.key, 0) && sameExpr(w.key, v.owner, 0) {
						found = true
					}
				}
				for _, l := range lookups[fn] {
					if o := mapOwner(l.X); o != nil && sameExpr(o, w.key, 0) && sameExpr(l.Index, w.owner, 0) && core.InstrDominates(l, w.ins) {
						found = true
					}
				}
				r.Check(found, "R17.pair", key, c.Pos(w.ins.Pos()), "Y.in[X] is written only where X.out[Y] is written or consulted",
					"backward edge Y.in[X] is written but X.out[Y] (same X, Y) is neither written nor looked up in the writer: the edge is incoming but not outgoing, forward traversal misses it")
			}
		}
	}
	r.Floor("R17.pair", 7, "updateEdgeInfo, addParamEdgeByPos, addReturnEdgeByPos (+addInEdge helper) measured")
	r.Extra["out_writes"] = nOut
	r.Extra["in_writes"] = nIn
	// whole-map assignments: only nil->fresh in constructors / lazy init (value must be a MakeMap or come from a composite literal)
	for _, st := range wholeAssign {
		s := st.(*ssa.Store)
		fn := s.Parent()
		_, isMake := s.Val.(*ssa.MakeMap)
		c0, isConst := s.Val.(*ssa.Const)
		ok := isMake || (isConst && c0.IsNil())
		key := c.FuncName(fn) + "|store-map"
		if ok {
			r.OK("R17.own", key, c.Pos(s.Pos()), "whole-store assignment installs a fresh empty map (constructor / lazy init)")
		} else {
			r.Fail("R17.own", key, c.Pos(s.Pos()), "an edge store is replaced by an existing map: edges of one node alias or overwrite another's without mirroring")
		}
	}
	r.Floor("R17.own", 10, "constructors install empty maps for 11 node kinds")

	// ---- R17.accessor
	for _, im := range c.Implementers(gn.Underlying().(*types.Interface)) {
		n, ok := derefNamed(im)
		if !ok || n.Obj().Pkg().Path() != dfPath {
			continue
		}
		st, ok := n.Underlying().(*types.Struct)
		if !ok {
			continue
		}
		for _, acc := range []struct {
			m    string
			pred func(types.Type) bool
		}{{"Out", isOutT}, {"In", isInT}} {
			fieldIdx := -1
			for i := 0; i < st.NumFields(); i++ {
				if acc.pred(st.Field(i).Type()) {
					fieldIdx = i
				}
			}
			key := "analysis/dataflow." + n.Obj().Name() + "." + acc.m
			if fieldIdx < 0 {
				r.Except("R17.accessor", key, "", "node kind has no "+acc.m+" store field")
				continue
			}
			fn := c.Func("analysis/dataflow", n.Obj().Name()+"."+acc.m)
			if fn == nil {
				r.Fail("R17.accessor", key, "", "accessor not found")
				continue
			}
			good := true
			nret := 0
			for _, b := range fn.Blocks {
				for _, ins := range b.Instrs {
					if ret, ok := ins.(*ssa.Return); ok {
						nret++
						ld, ok := ret.Results[0].(*ssa.UnOp)
						if !ok {
							good = false
							continue
						}
						fa, ok := ld.X.(*ssa.FieldAddr)
						if !ok || fa.Field != fieldIdx || fa.X != fn.Params[0] {
							good = false
						}
					}
				}
			}
			r.Check(good && nret > 0, "R17.accessor", key, c.Pos(fn.Pos()), "returns the receiver's own store field",
				acc.m+"() does not return the receiver's "+st.Field(fieldIdx).Name()+" field: traversals see a different edge set than the writers maintain")
		}
	}
	r.Floor("R17.accessor", 20, "11 node kinds x 2 accessors")

	// ---- R17.card
	{
		_, outSlice := outT.Elem().(*types.Slice)
		_, inSlice := inT.Elem().(*types.Slice)
		// discover the declared field types from ParamNode
		pn, _ := dfp.Types.Scope().Lookup("ParamNode").(*types.TypeName)
		if pn != nil {
			if st, ok := pn.Type().Underlying().(*types.Struct); ok {
				for i := 0; i < st.NumFields(); i++ {
					if mt, ok := st.Field(i).Type().Underlying().(*types.Map); ok && types.Identical(mt.Key(), gn) {
						_, isSl := mt.Elem().Underlying().(*types.Slice)
						if st.Field(i).Name() == "out" {
							outSlice = isSl
						}
						if st.Field(i).Name() == "in" {
							inSlice = isSl
						}
					}
				}
			}
		}
		r.Check(outSlice == inSlice, "R17.card", "analysis/dataflow.GraphNode|out-vs-in-multiplicity", c.Pos(gn.Obj().Pos()),
			"forward and backward stores keep the same number of EdgeInfo per neighbour",
			"the forward store keeps a list of EdgeInfo per target (one per tuple index) but the backward store keeps a single EdgeInfo per source, and updateEdgeInfo appends on a new index while overwriting the in-entry: with two tuple indices between the same node pair one edge is outgoing but not incoming 'with the same tuple index'")
	}

	// ---- R17.registry
	c17registry(c, r)
	c17mirror(c, r)
	// ---- R17.globals
	c17globals(c, r)
}

func fieldStoreSites(c *core.Ctx, typeName, fieldName string) []*ssa.Store {
	var res []*ssa.Store
	for _, fn := range c.RepoFunctions() {
		for _, b := range fn.Blocks {
			for _, ins := range b.Instrs {
				st, ok := ins.(*ssa.Store)
				if !ok {
					continue
				}
				if n, f := core.FieldOf(st.Addr); n != nil && n.Obj().Name() == typeName && n.Obj().Pkg().Path() == dfPath && f.Name() == fieldName {
					res = append(res, st)
				}
			}
		}
	}
	return res
}

// registersIn reports whether fn contains a MapUpdate on a map loaded from
// field regField of summary value sum (structurally) with value node.
func registersIn(fn *ssa.Function, regField, linkField string, sum, node ssa.Value) bool {
	for _, b := range fn.Blocks {
		for _, ins := range b.Instrs {
			mu, ok := ins.(*ssa.MapUpdate)
			if !ok {
				continue
			}
			ld, ok := mu.Map.(*ssa.UnOp)
			if !ok {
				continue
			}
			n, f := core.FieldOf(ld.X)
			if n == nil || f.Name() != regField {
				continue
			}
			fa := ld.X.(*ssa.FieldAddr)
			sumOK := sum == nil || sameExprPhi(fa.X, sum)
			if !sumOK && node != nil && linkField != "" {
				// the summary is re-read from the link field of the same node: node.<linkField>.<regField>[..] = node
				if l2, ok := fa.X.(*ssa.UnOp); ok {
					if n2, f2 := core.FieldOf(l2.X); n2 != nil && f2.Name() == linkField && sameExprPhi(l2.X.(*ssa.FieldAddr).X, node) {
						sumOK = true
					}
				}
			}
			if sumOK && (node == nil || sameExprPhi(mu.Value, node)) {
				return true
			}
		}
	}
	return false
}

func sameExprPhi(a, b ssa.Value) bool {
	if sameExpr(a, b, 0) {
		return true
	}
	if p, ok := b.(*ssa.Phi); ok {
		for _, e := range p.Edges {
			if sameExpr(a, e, 0) {
				return true
			}
		}
	}
	if p, ok := a.(*ssa.Phi); ok {
		for _, e := range p.Edges {
			if sameExpr(e, b, 0) {
				return true
			}
		}
	}
	return false
}

func c17registry(c *core.Ctx, r *core.Report) {
	for _, spec := range []struct{ typ, field, reg string }{{"CallNode", "CalleeSummary", "Callsites"}, {"ClosureNode", "ClosureSummary", "ReferringMakeClosures"}} {
		sites := fieldStoreSites(c, spec.typ, spec.field)
		cnt := map[string]int{}
		for _, st := range sites {
			fn := st.Parent()
			name := c.FuncName(fn)
			cnt[name]++
			key := fmt.Sprintf("%s|%s.%s=#%d", name, spec.typ, spec.field, cnt[name])
			if k, ok := st.Val.(*ssa.Const); ok && k.IsNil() {
				r.OK("R17.registry", key, c.Pos(st.Pos()), "assigns nil (constructor)")
				continue
			}
			node := st.Addr.(*ssa.FieldAddr).X
			ok := registersIn(fn, spec.reg, spec.field, st.Val, node)
			how := "node registered in " + spec.reg + " of the assigned summary in the same function"
			if !ok {
				// value produced by a registering resolver: callee contains a MapUpdate on .<reg> whose value is one of its params
				if call, isCall := st.Val.(*ssa.Call); isCall {
					if sc := call.Call.StaticCallee(); sc != nil && sc.Blocks != nil {
						for _, p := range sc.Params {
							if registersIn(sc, spec.reg, "", nil, p) {
								ok = true
								how = "summary comes from resolver " + core.ShortFunc(sc) + " which registers the node in " + spec.reg
							}
						}
					}
				}
			}
			r.Check(ok, "R17.registry", key, c.Pos(st.Pos()), how,
				fmt.Sprintf("%s.%s is assigned a summary but the node is not registered in that summary's %s (neither here nor by the producing function): the callee side cannot find this site, so flows back to it are lost", spec.typ, spec.field, spec.reg))
		}
	}
	r.Floor("R17.registry", 6, "5 CalleeSummary + 3 ClosureSummary assignments measured (plus constructors)")
}

func c17globals(c *core.Ctx, r *core.Report) {
	// who writes GlobalNode.ReadLocations / WriteLocations
	for _, fn := range c.RepoFunctions() {
		for _, b := range fn.Blocks {
			for _, ins := range b.Instrs {
				mu, ok := ins.(*ssa.MapUpdate)
				if !ok {
					continue
				}
				n, f := core.MapFieldOrigin(mu.Map)
				if n == nil || n.Obj().Name() != "GlobalNode" || n.Obj().Pkg().Path() != dfPath {
					continue
				}
				if f.Name() != "ReadLocations" && f.Name() != "WriteLocations" {
					continue
				}
				name := c.FuncName(fn)
				want := map[string]string{"ReadLocations": "addReadLoc", "WriteLocations": "addWriteLoc"}[f.Name()]
				r.Check(fn.Name() == want && c.FuncPkgRel(fn) == "analysis/dataflow", "R17.globals.own", name+"|"+f.Name(), c.Pos(mu.Pos()),
					"location set written by its dedicated (locking) adder", "GlobalNode."+f.Name()+" written outside "+want+": bypasses the mutex and the SyncGlobals protocol")
			}
		}
	}
	r.Floor("R17.globals.own", 2, "two adders")
	g := c.RepoGraph()
	for _, adder := range []string{"GlobalNode.addReadLoc", "GlobalNode.addWriteLoc"} {
		fn := c.Func("analysis/dataflow", adder)
		if fn == nil {
			r.Fail("infra.anchor-unresolved", "R17.globals|"+adder, "", "not found")
			continue
		}
		var callers []string
		for _, cl := range g.Callers[fn] {
			callers = append(callers, c.FuncName(cl))
		}
		sort.Strings(callers)
		ok := len(callers) == 1 && strings.HasSuffix(callers[0], ".SyncGlobals")
		r.Check(ok, "R17.globals.sync", "analysis/dataflow."+adder+"|callers", c.Pos(fn.Pos()), "called only from SyncGlobals",
			"called from "+strings.Join(callers, ", ")+": location sets may contain nodes of summaries that were not built")
	}
	// RunIntraProcedural: call to SyncGlobals dominates store Constructed = true
	run := c.Func("analysis/dataflow", "RunIntraProcedural")
	if run == nil {
		r.Fail("infra.anchor-unresolved", "R17.globals|RunIntraProcedural", "", "not found")
		return
	}
	var syncCall ssa.Instruction
	var storeC []*ssa.Store
	for _, b := range run.Blocks {
		for _, ins := range b.Instrs {
			if sc := core.StaticCalleeOf(ins); sc != nil && sc.Name() == "SyncGlobals" {
				syncCall = ins
			}
			if st, ok := ins.(*ssa.Store); ok {
				if n, f := core.FieldOf(st.Addr); n != nil && n.Obj().Name() == "SummaryGraph" && f.Name() == "Constructed" {
					storeC = append(storeC, st)
				}
			}
		}
	}
	for i, st := range storeC {
		r.Check(syncCall != nil && core.InstrDominates(syncCall, st), "R17.globals.sync", fmt.Sprintf("analysis/dataflow.RunIntraProcedural|Constructed=#%d", i+1), c.Pos(st.Pos()),
			"SyncGlobals is called on every path before the summary is marked Constructed", "summary is marked Constructed without a dominating SyncGlobals call: global read/write location sets miss this summary's access nodes")
	}
	if len(storeC) == 0 {
		r.Fail("infra.anchor-unresolved", "R17.globals|Constructed", c.Pos(run.Pos()), "no store to SummaryGraph.Constructed in RunIntraProcedural")
	}
}
