package core

import (
	"fmt"
	"go/token"
	"sort"
	"strings"

	"golang.org/x/tools/go/ssa"
)

// CalleesAt resolves the repository-level callees of one instruction the
// same way RepoGraph does: static callee, repository implementations of an
// invoked interface method, closures created by the instruction.
func (g *RepoGraph) CalleesAt(ins ssa.Instruction) []*ssa.Function {
	var res []*ssa.Function
	if ci, ok := ins.(ssa.CallInstruction); ok {
		cc := ci.Common()
		if cc.IsInvoke() {
			res = append(res, g.impls[cc.Method]...)
		} else if sc := cc.StaticCallee(); sc != nil {
			res = append(res, sc)
		}
	}
	return res
}

// LiveCone is the result of a nil-aware reachability computation: for every
// repository function reachable from the roots, the set of blocks that are
// live in at least one calling context.
type LiveCone map[*ssa.Function]map[*ssa.BasicBlock]bool

// Live reports whether ins lies in a live block.
func (l LiveCone) Live(ins ssa.Instruction) bool {
	m := l[ins.Parent()]
	return m != nil && m[ins.Block()]
}

// Funcs returns the functions of the cone.
func (l LiveCone) Funcs() map[*ssa.Function]bool {
	r := map[*ssa.Function]bool{}
	for f := range l {
		r[f] = true
	}
	return r
}

// NilAwareCone computes the functions reachable from roots, pruning, per
// calling context, the branches that are dead because a parameter or captured
// variable is a nil constant at the call site (`if s != nil { ... }` guards).
// Contexts are sets of nil parameters/free variables; at most 6 contexts per
// function are explored, after which the context-free (no pruning) body is used.
func (g *RepoGraph) NilAwareCone(roots ...*ssa.Function) LiveCone {
	live := LiveCone{}
	seen := map[string]bool{}
	nctx := map[*ssa.Function]int{}
	type item struct {
		fn   *ssa.Function
		nils map[ssa.Value]bool
	}
	var work []item
	push := func(fn *ssa.Function, nils map[ssa.Value]bool) {
		if fn == nil || fn.Blocks == nil || !g.c.IsRepoFunc(fn) {
			return
		}
		if nctx[fn] >= 6 {
			nils = nil
		}
		var ks []string
		for v := range nils {
			ks = append(ks, v.Name())
		}
		sort.Strings(ks)
		key := fmt.Sprintf("%p|%s", fn, strings.Join(ks, ","))
		if seen[key] {
			return
		}
		seen[key] = true
		nctx[fn]++
		work = append(work, item{fn, nils})
	}
	for _, r := range roots {
		push(r, nil)
	}
	for len(work) > 0 {
		it := work[len(work)-1]
		work = work[:len(work)-1]
		fn, nils := it.fn, it.nils
		var isNil func(v ssa.Value) bool
		// nilCell: a variable cell (captured variable) that only ever holds nil in this context
		nilCell := func(x ssa.Value) bool {
			switch c := x.(type) {
			case *ssa.FreeVar:
				return nils[c]
			case *ssa.Alloc:
				if c.Referrers() == nil {
					return false
				}
				stores := 0
				for _, ref := range *c.Referrers() {
					if st, ok := ref.(*ssa.Store); ok && st.Addr == c {
						stores++
						if !isNil(st.Val) {
							return false
						}
					}
				}
				return stores > 0
			}
			return false
		}
		isNil = func(v ssa.Value) bool {
			for i := 0; i < 4; i++ {
				if ld, ok := v.(*ssa.UnOp); ok && ld.Op == token.MUL {
					return nilCell(ld.X)
				}
				if k, ok := v.(*ssa.Const); ok {
					return k.IsNil()
				}
				if nils[v] {
					return true
				}
				switch x := v.(type) {
				case *ssa.ChangeType:
					v = x.X
				case *ssa.MakeInterface:
					return false
				default:
					return false
				}
			}
			return false
		}
		// reachable blocks under the context
		reach := map[*ssa.BasicBlock]bool{}
		st := []*ssa.BasicBlock{fn.Blocks[0]}
		if fn.Recover != nil {
			st = append(st, fn.Recover)
		}
		for len(st) > 0 {
			b := st[len(st)-1]
			st = st[:len(st)-1]
			if reach[b] {
				continue
			}
			reach[b] = true
			succs := b.Succs
			if iff, ok := b.Instrs[len(b.Instrs)-1].(*ssa.If); ok && len(nils) > 0 {
				if bo, ok := iff.Cond.(*ssa.BinOp); ok && (bo.Op == token.EQL || bo.Op == token.NEQ) {
					xk, yk := isConstNil(bo.X), isConstNil(bo.Y)
					var other ssa.Value
					if xk && !yk {
						other = bo.Y
					} else if yk && !xk {
						other = bo.X
					}
					if other != nil && isNil(other) {
						// other == nil is true
						if bo.Op == token.EQL {
							succs = b.Succs[:1]
						} else {
							succs = b.Succs[1:2]
						}
					}
				}
			}
			st = append(st, succs...)
		}
		if live[fn] == nil {
			live[fn] = map[*ssa.BasicBlock]bool{}
		}
		for b := range reach {
			live[fn][b] = true
			for _, ins := range b.Instrs {
				if ci, ok := ins.(ssa.CallInstruction); ok {
					cc := ci.Common()
					for _, callee := range g.CalleesAt(ins) {
						cn := map[ssa.Value]bool{}
						off := 0
						if cc.IsInvoke() {
							off = 1
						}
						for i, a := range cc.Args {
							if i+off < len(callee.Params) && isNil(a) {
								cn[callee.Params[i+off]] = true
							}
						}
						push(callee, cn)
					}
				}
				if mc, ok := ins.(*ssa.MakeClosure); ok {
					cf := mc.Fn.(*ssa.Function)
					cn := map[ssa.Value]bool{}
					for i, bnd := range mc.Bindings {
						if isNil(bnd) || nilCell(bnd) {
							cn[cf.FreeVars[i]] = true
						}
					}
					push(cf, cn)
				}
				// address-taken functions: no context
				if _, isMC := ins.(*ssa.MakeClosure); isMC {
					continue
				}
				var rands []*ssa.Value
				for _, op := range ins.Operands(rands) {
					if f, ok := (*op).(*ssa.Function); ok {
						if ci, isCall := ins.(ssa.CallInstruction); isCall && ci.Common().Value == f {
							continue
						}
						push(f, nil)
					}
				}
			}
		}
	}
	return live
}

func isConstNil(v ssa.Value) bool {
	k, ok := v.(*ssa.Const)
	return ok && k.IsNil()
}
