#!/usr/bin/env python3
"""Regenerates /verif/MANIFEST.json from tools/claims.json (claimed properties)
and validates it against the schema. Every property not claimed is listed under
not_applicable with the reason from claims.json["not_applicable"] (or a
placeholder saying the check is not built yet)."""
import json, sys, os
V = os.path.dirname(os.path.dirname(os.path.abspath(__file__)))
claims = json.load(open(os.path.join(V, "tools", "claims.json")))
props = [json.loads(l)["id"] for l in open(os.path.join(V, "properties.jsonl")) if l.strip()]
SETUP = "cd /verif/checker && GOFLAGS=-mod=mod GOPROXY=off GOSUMDB=off GOTOOLCHAIN=local GOWORK=off go build -o /verif/bin/argotcheck ./cmd/argotcheck"
BASE = json.load(open("/root/.vp/BASELINE.json"))["cmd"]
checks = []
for pid in props:
    c = claims["claims"].get(pid)
    if not c:
        continue
    checks.append({
        "property_id": pid,
        "quick_cmd": f"/verif/bin/argotcheck -property {pid} -tier quick",
        "thorough_cmd": f"/verif/bin/argotcheck -property {pid} -tier thorough",
        "evidence_file": f"/verif/evidence/{pid}.json",
        "replay_cmd_template": f"/verif/bin/argotcheck -property {pid} -tier quick -explain {{path}}",
        "engine": "argotcheck",
        "level_claimed": {"category": "other", "text": c["text"], "design_ref": c.get("design_ref", "DESIGN.md §3 " + pid)},
        "level_note": c["note"],
        "technique": c["technique"],
    })
na = []
for pid in props:
    if pid in claims["claims"]:
        continue
    na.append({"property_id": pid, "reason": claims["not_applicable"].get(pid, "static check not built yet in this round; see DESIGN.md §3 for the planned rule")})
m = {
    "version": 1,
    "setup_cmd": SETUP,
    "hooks": {"guard": "verif", "enable": "none needed: the checks analyse /repo's source as is (go/packages + go/ssa); no instrumentation is compiled into the repository",
              "baseline_off_cmd": BASE, "source_commits": [], "add_only": True},
    "engines": [{"name": "argotcheck", "path": "/verif/checker", "serves_properties": [c["property_id"] for c in checks],
                 "kind_free_text": "repository-specific static analyzer over go/packages + go/types + go/ssa (x/tools v0.29.0): dispatch exhaustiveness, operand coverage, sibling agreement, ownership/pairing, path rules, control-dependence purity, concurrency discipline, table conformance"}],
    "checks": checks,
    "notes": claims.get("notes", ""),
    "not_applicable": na,
}
json.dump(m, open(os.path.join(V, "MANIFEST.json"), "w"), indent=1)
try:
    import jsonschema
    jsonschema.validate(m, json.load(open("/root/.vp/MANIFEST.schema.json")))
    print("MANIFEST valid;", len(checks), "claimed,", len(na), "not applicable")
except ImportError:
    print("jsonschema not available; wrote MANIFEST without validation")
