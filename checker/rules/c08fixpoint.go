package rules

import (
	"fmt"
	"strings"

	"golang.org/x/tools/go/ssa"

	"verif/checker/core"
)

// c08fixpoint (R08.fixpoint): the intra-procedural summaries are the least
// fixpoint of the block transfer functions; lang.RunForwardIterative reaches it
// only if a block whose end state changed re-queues every block it has a path
// to. Inside the fixpoint loop the enqueue may depend on nothing but: the
// change test (ChangedOnEndBlock), the path test (HasPathTo), the "already
// queued" test (Contains on the work list) and the iteration itself. Any other
// condition - a visit counter, a budget - truncates the iteration: origins
// present at a back-edge predecessor are missing at the loop-header phis and
// the summary lacks edges (long loop-carried def-use chains).
func c08fixpoint(c *core.Ctx, r *core.Report) {
	r.Explain("R08.fixpoint: in lang.RunForwardIterative the append that re-queues a block inside the fixpoint loop is control dependent (transitively, within the loop) only on ChangedOnEndBlock(), HasPathTo(...), the already-queued test and loop headers: no visit bound or budget.")
	fn := c.Func("analysis/lang", "RunForwardIterative")
	if fn == nil {
		r.Fail("infra.anchor-unresolved", "R08.fixpoint|analysis/lang.RunForwardIterative", "", "not found")
		return
	}
	r.Analysed("analysis/lang.RunForwardIterative")
	allowedCall := func(v ssa.Value) bool {
		if u, ok := v.(*ssa.UnOp); ok && u.Op.String() == "!" {
			v = u.X
		}
		call, ok := v.(*ssa.Call)
		if !ok {
			return false
		}
		name := ""
		if call.Call.IsInvoke() {
			name = call.Call.Method.Name()
		} else if sc := call.Call.StaticCallee(); sc != nil {
			name = sc.Name()
		}
		return name == "ChangedOnEndBlock" || name == "HasPathTo" || strings.HasPrefix(name, "Contains")
	}
	n := 0
	for _, b := range fn.Blocks {
		for _, ins := range b.Instrs {
			call, ok := ins.(*ssa.Call)
			if !ok {
				continue
			}
			bi, ok := call.Call.Value.(*ssa.Builtin)
			if !ok || bi.Name() != "append" {
				continue
			}
			deps, inLoop := core.ControlDepsWithin(b)
			if !inLoop {
				continue // the initial seeding of the work list
			}
			n++
			var bad []string
			for _, d := range deps {
				iff := d.Instrs[len(d.Instrs)-1].(*ssa.If)
				if allowedCall(iff.Cond) {
					continue
				}
				// the emptiness test of the work list that ends the loop
				if bo, ok := iff.Cond.(*ssa.BinOp); ok {
					if lc, ok := bo.X.(*ssa.Call); ok {
						if lb, ok := lc.Call.Value.(*ssa.Builtin); ok && lb.Name() == "len" && isConstInt(bo.Y, 0) {
							continue
						}
					}
				}
				bad = append(bad, core.DescribeValue(iff.Cond, 0)+" at "+c.Pos(iff.Cond.Pos()))
			}
			r.Check(len(bad) == 0, "R08.fixpoint", fmt.Sprintf("analysis/lang.RunForwardIterative|requeue#%d", n), c.Pos(call.Pos()),
				"a changed block re-queues every block it reaches, with no other condition",
				"the re-queue of a block is also conditional on "+strings.Join(bad, " / ")+": the iteration can stop before the fixpoint is reached, flows carried around a loop through long def-use chains are missing from the summary")
		}
	}
	if n == 0 {
		r.Fail("R08.fixpoint", "analysis/lang.RunForwardIterative|requeue", c.Pos(fn.Pos()), "no re-queue (append to the work list inside the loop) found")
	}
}
