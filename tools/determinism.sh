#!/bin/bash
# Runs every claimed check twice and compares the obligation keys and verdicts.
props=$(python3 -c "import json;print(' '.join(c['property_id'] for c in json.load(open('/verif/MANIFEST.json'))['checks']))")
mkdir -p /tmp/det1 /tmp/det2; cp /verif/known_findings.jsonl /tmp/det1/; cp /verif/known_findings.jsonl /tmp/det2/
for p in $props "$@"; do
  /verif/bin/argotcheck -property $p -verif /tmp/det1 >/dev/null 2>&1; /verif/bin/argotcheck -property $p -verif /tmp/det2 >/dev/null 2>&1
  a=$(grep -v "^    " /tmp/det1/reports/$p.txt | sort | md5sum); b=$(grep -v "^    " /tmp/det2/reports/$p.txt | sort | md5sum)
  [ "$a" = "$b" ] && echo "$p deterministic" || { echo "$p NONDETERMINISTIC"; diff <(grep -v "^    " /tmp/det1/reports/$p.txt | sort) <(grep -v "^    " /tmp/det2/reports/$p.txt | sort) | head -5; }
done
rm -rf /tmp/det1 /tmp/det2
